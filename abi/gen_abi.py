#!/usr/bin/env python3
"""gen_abi.py - C20: derive, from the Python binding sources (parsed with `ast`, never imported) and from the real C
headers (as parsed by the verifier's own C front end), one C translation unit of loop-free obligations:

  struct  S: same number of fields; field i has the ctypes-computed offset and a compatible C type; sizeof equal
  function f: declared in a header, defined in the library, prototype compatible with argtypes/restype

The obligations are __CPROVER_assert(<constant expression over offsetof/sizeof/__builtin_types_compatible_p>) and are
discharged by cbmc.  Trust sits in the ctypes->C type map below (listed in the evidence).
"""
import ast, json, os, re, subprocess, sys

CT = {  # ctypes scalar -> (C spelling, size, align)
    "c_double": ("double", 8, 8), "c_int": ("int", 4, 4), "c_size_t": ("size_t", 8, 8), "c_char": ("char", 1, 1),
    "c_char_p": ("char *", 8, 8), "c_uint": ("unsigned int", 4, 4), "c_long": ("long", 8, 8), "c_ulong": ("unsigned long", 8, 8),
    "c_float": ("float", 4, 4), "c_void_p": ("void *", 8, 8), "c_uint32": ("uint32_t", 4, 4), "c_int32": ("int32_t", 4, 4),
    "c_uint64": ("uint64_t", 8, 8), "c_int64": ("int64_t", 8, 8), "c_bool": ("_Bool", 1, 1), "c_short": ("short", 2, 2),
    "c_ushort": ("unsigned short", 2, 2), "c_ubyte": ("unsigned char", 1, 1), "c_byte": ("signed char", 1, 1),
    "c_longlong": ("long long", 8, 8), "c_ulonglong": ("unsigned long long", 8, 8), "c_ssize_t": ("ssize_t", 8, 8),
}
# python Structure class -> C typedef it mirrors (by the binding's own documentation / usage)
MIRROR = {"MATRIX": "matrix", "DVECTOR": "dvector", "UIVECTOR": "uivector", "IVECTOR": "ivector", "STRVECTOR": "strvector",
          "TENSOR": "tensor", "DVECTLIST": "dvectorlist"}


# fields that the binding deliberately names differently from the C member they mirror (pinned tree); every other
# field must carry the C member's name, so that swapping two same-typed members on either side is seen
NAME_ALIAS = {("DVECTLIST", "dvector"): "d"}


class TypeErr(Exception):
    pass


def ctype_of(node, structs):
    """AST of a ctypes type expression -> (C spelling, size, align)"""
    if isinstance(node, ast.Constant) and node.value is None:
        return ("void", 0, 1)
    if isinstance(node, ast.Attribute):
        name = node.attr
        if name in CT:
            return CT[name]
        if name in structs:
            return (MIRROR.get(name, name), None, 8)
        raise TypeErr("unknown type %s" % ast.unparse(node))
    if isinstance(node, ast.Name):
        if node.id in CT:
            return CT[node.id]
        if node.id in structs:
            return (MIRROR.get(node.id, node.id), None, 8)
        raise TypeErr("unknown type %s" % node.id)
    if isinstance(node, ast.Call):
        f = node.func
        fname = f.attr if isinstance(f, ast.Attribute) else getattr(f, "id", "")
        if fname == "POINTER" and len(node.args) == 1:
            inner = ctype_of(node.args[0], structs)
            return (inner[0] + " *", 8, 8)
    raise TypeErr("unsupported ctypes expression %s" % ast.unparse(node))


def parse_bindings(pydir):
    structs = {}   # class -> (file, [(field, node)])
    funcs = {}     # cname -> dict(argtypes=[nodes]|None, restype=node|'unset', file, line)
    called = {}
    files = sorted(f for f in os.listdir(pydir) if f.endswith(".py"))
    trees = {}
    for f in files:
        trees[f] = ast.parse(open(os.path.join(pydir, f)).read(), f)
    for f, t in trees.items():
        for n in ast.walk(t):
            if isinstance(n, ast.ClassDef) and any((isinstance(b, ast.Attribute) and b.attr == "Structure") or
                                                    (isinstance(b, ast.Name) and b.id == "Structure") for b in n.bases):
                for st in n.body:
                    if isinstance(st, ast.Assign) and any(isinstance(tg, ast.Name) and tg.id == "_fields_" for tg in st.targets):
                        fl = []
                        for el in st.value.elts:
                            fl.append((el.elts[0].value, el.elts[1]))
                        structs[n.name] = (f, fl)
    for f, t in trees.items():
        for n in ast.walk(t):
            if isinstance(n, ast.Assign) and len(n.targets) == 1 and isinstance(n.targets[0], ast.Attribute):
                tg = n.targets[0]
                if tg.attr in ("argtypes", "restype") and isinstance(tg.value, ast.Attribute) and \
                   isinstance(tg.value.value, ast.Name) and tg.value.value.id == "lsci":
                    cname = tg.value.attr
                    d = funcs.setdefault(cname, dict(argtypes=None, restype="unset", file=f, line=n.lineno))
                    if tg.attr == "argtypes":
                        if isinstance(n.value, (ast.List, ast.Tuple)):
                            d["argtypes"] = list(n.value.elts)
                        elif isinstance(n.value, ast.Constant) and n.value.value is None:
                            d["argtypes"] = []     # ctypes: no conversion of arguments; every such function here takes none
                        else:
                            d["argtypes"] = "unparsed"
                    else:
                        d["restype"] = n.value
            if isinstance(n, ast.Call) and isinstance(n.func, ast.Attribute) and isinstance(n.func.value, ast.Name) \
               and n.func.value.id == "lsci":
                called.setdefault(n.func.attr, (f, n.lineno))
    return structs, funcs, called


def header_includes(repo_src):
    """the installed public headers, as listed in src/CMakeLists.txt (Scientific_C_H)"""
    cm = open(os.path.join(repo_src, "CMakeLists.txt")).read()
    m = re.search(r"set\(Scientific_C_H(.*?)\)", cm, re.S)
    return "".join('#include "%s"\n' % h for h in m.group(1).split())


def c_symbols(repo_src, cfgdir, workdir, names):
    """Use the verifier's front end on the real headers + sources: struct components and function symbols."""
    tu = os.path.join(workdir, "abi_probe.c")
    cm = open(os.path.join(repo_src, "CMakeLists.txt")).read()
    with open(tu, "w") as f:
        f.write(header_includes(repo_src) + 'void abi_probe(void){}\n')
    m = re.search(r"set\(Scientific_C_SRCS(.*?)\)", cm, re.S)
    srcs = [os.path.join(repo_src, s) for s in m.group(1).split()]
    gb = os.path.join(workdir, "abi_probe.gb")
    r = subprocess.run(["goto-cc", "-D_GNU_SOURCE", "-I" + repo_src, "-I" + cfgdir, "--function", "abi_probe", tu] + srcs + ["-o", gb],
                       stdout=subprocess.PIPE, stderr=subprocess.STDOUT)
    if r.returncode != 0:
        raise RuntimeError("goto-cc on headers failed: " + r.stdout.decode()[-2000:])
    out = subprocess.run(["goto-instrument", "--show-symbol-table", "--json-ui", gb], stdout=subprocess.PIPE).stdout.decode()
    st = None
    for e in json.loads(out):
        if "symbolTable" in e:
            st = e["symbolTable"]
    typedefs = {}   # typedef name -> struct tag symbol
    tags = {}
    funcs = {}
    for name, s in st.items():
        ty = s.get("type", {})
        if s.get("isType") and ty.get("id") == "struct_tag" and not name.startswith("tag-"):
            typedefs[s.get("baseName", name)] = ty.get("namedSub", {}).get("identifier", {}).get("id")
        if name.startswith("tag-") and ty.get("id") == "struct":
            comps = []
            for c in ty.get("namedSub", {}).get("components", {}).get("sub", []):
                nm = c.get("namedSub", {}).get("name", {}).get("id")
                if nm and not c.get("namedSub", {}).get("#is_padding"):
                    comps.append(nm)
            tags[name] = comps
        if ty.get("id") == "code" and "::" not in name:
            funcs[name] = dict(defined=False, header=s.get("location", {}).get("namedSub", {}).get("file", {}).get("id", ""))
    out = subprocess.run(["goto-instrument", "--list-goto-functions", "--json-ui", gb], stdout=subprocess.PIPE).stdout.decode()
    for e in json.loads(out):
        if "functions" in e:
            for fn in e["functions"]:
                if fn.get("isBodyAvailable") and fn["name"] in funcs:
                    funcs[fn["name"]]["defined"] = True
    structs = {}
    for td, tag in typedefs.items():
        if tag in tags:
            structs[td] = tags[tag]
    # which names have a prototype visible through the public headers only: ask the C front end (gcc -fsyntax-only)
    # to take the address of every name the bindings mention; undeclared ones are reported by name
    tu2 = os.path.join(workdir, "abi_hdr.c")
    gb2 = os.path.join(workdir, "abi_hdr.gb")
    with open(tu2, "w") as f:
        f.write(header_includes(repo_src))
        for i, n in enumerate(sorted(names)):
            f.write("void *abi_p%d = (void *)&%s;\n" % (i, n))
    r = subprocess.run(["gcc", "-fsyntax-only", "-fmax-errors=0", "-D_GNU_SOURCE", "-I" + repo_src, "-I" + cfgdir, tu2],
                       stdout=subprocess.PIPE, stderr=subprocess.STDOUT)
    undeclared = set(re.findall(r"error: [‘'`]([A-Za-z_0-9]+)[’'] undeclared", r.stdout.decode(errors="replace")))
    declared = set(names) - undeclared
    for f in (tu, gb, tu2, gb2):
        try:
            os.remove(f)
        except OSError:
            pass
    return structs, funcs, declared


def generate(repo_src, cfgdir, workdir, out_c):
    pydir = os.path.join(repo_src, "python_bindings", "libscientific")
    pstructs, pfuncs, called = parse_bindings(pydir)
    cstructs, cfuncs, declared = c_symbols(repo_src, cfgdir, workdir, set(pfuncs) | set(called))
    obl = []      # (id, C condition, description)
    static_fail = []  # obligations decided by the generator itself (cannot even be spelled in C)
    for cls, (pf, fields) in sorted(pstructs.items()):
        cname = MIRROR.get(cls, cls)
        if cname not in cstructs:
            static_fail.append(("struct %s" % cls, "no C typedef struct '%s' in the library headers (%s)" % (cname, pf)))
            continue
        cf = cstructs[cname]
        obl.append(("struct %s.fieldcount" % cls, "%d == %d" % (len(fields), len(cf)),
                    "%s declares %d fields, C struct %s has %d (%s)" % (cls, len(fields), cname, len(cf), ",".join(cf))))
        off = 0; maxal = 1
        for i, (fname, node) in enumerate(fields):
            try:
                spell, size, al = ctype_of(node, pstructs)
            except TypeErr as e:
                static_fail.append(("struct %s.%s" % (cls, fname), str(e))); continue
            if size is None:
                static_fail.append(("struct %s.%s" % (cls, fname), "by-value nested struct not supported by the generator")); continue
            off = (off + al - 1) // al * al
            maxal = max(maxal, al)
            if i < len(cf):
                cfn = cf[i]
                obl.append(("struct %s.field%d.offset" % (cls, i), "offsetof(%s, %s) == %d" % (cname, cfn, off),
                            "%s.%s (ctypes offset %d) vs %s.%s" % (cls, fname, off, cname, cfn)))
                obl.append(("struct %s.field%d.name" % (cls, i),
                            "1" if NAME_ALIAS.get((cls, fname), fname) == cfn else "0",
                            "%s field %d is '%s', C member %d of %s is '%s'" % (cls, i, fname, i, cname, cfn)))
                obl.append(("struct %s.field%d.type" % (cls, i),
                            "__builtin_types_compatible_p(__typeof__(((%s *)0)->%s), %s)" % (cname, cfn, spell),
                            "%s.%s : %s vs C field %s.%s" % (cls, fname, spell, cname, cfn)))
            off += size
        total = (off + maxal - 1) // maxal * maxal
        obl.append(("struct %s.sizeof" % cls, "sizeof(%s) == %d" % (cname, total), "ctypes size %d" % total))
    for fn, d in sorted(pfuncs.items()):
        if fn not in declared:
            static_fail.append(("func %s.declared" % fn, "lsci.%s is given a prototype in %s:%d but no public header declares it" % (fn, d["file"], d["line"])))
            continue
        obl.append(("func %s.defined" % fn, "1" if cfuncs.get(fn, {}).get("defined") else "0", "function has a body in the library sources"))
        if d["argtypes"] is None or d["argtypes"] == "unparsed":
            static_fail.append(("func %s.argtypes" % fn, "restype set but argtypes missing/unparsed in %s:%d" % (d["file"], d["line"])))
            continue
        try:
            args = [ctype_of(a, pstructs)[0] for a in d["argtypes"]]
            ret = "int" if d["restype"] == "unset" else ctype_of(d["restype"], pstructs)[0]
        except TypeErr as e:
            static_fail.append(("func %s.types" % fn, str(e))); continue
        def protos(args):
            # `char *` parameters may be declared const in C: same kind, accept both
            outs = [[]]
            for a in args:
                alts = [a, "const " + a] if a.startswith("char *") else [a]
                outs = [o + [x] for o in outs for x in alts]
            return outs[:16]
        alts = []
        rets = [ret, "const " + ret] if ret.startswith("char *") else [ret]
        for av in protos(args):
            for rv in rets:
                alts.append("__builtin_types_compatible_p(__typeof__(&%s), %s (*)(%s))" % (fn, rv, ", ".join(av) if av else "void"))
        obl.append(("func %s.prototype" % fn, " || ".join(alts),
                    "lsci.%s: %s (%s)  [%s:%d]" % (fn, ret, ", ".join(args), d["file"], d["line"])))
    for fn, (f, ln) in sorted(called.items()):
        if fn not in pfuncs:
            static_fail.append(("func %s.undeclared-call" % fn, "lsci.%s is called at %s:%d without argtypes/restype" % (fn, f, ln)))
    with open(out_c, "w") as f:
        f.write('/* generated by /verif/abi/gen_abi.py from the binding sources and the real headers - do not edit */\n')
        f.write('#include <stddef.h>\n#include <stdint.h>\n#include <sys/types.h>\n#include "vc.h"\n' + header_includes(repo_src))
        f.write("void h_abi(void)\n{\n")
        for oid, cond, desc in obl:
            f.write('  __CPROVER_assert(%s, "C20 %s :: %s");\n' % (cond, oid, desc.replace('"', "'").replace("\\", "/")))
        f.write("  VC_REACH();\n}\n")
    return obl, static_fail, dict(structs=len(pstructs), functions=len(pfuncs), c_structs=sorted(cstructs), files=sorted(os.listdir(pydir)))


if __name__ == "__main__":
    o, s, info = generate(sys.argv[1], sys.argv[2], sys.argv[3], sys.argv[4])
    print(len(o), "obligations;", len(s), "generator-decided failures")
    for x in s:
        print("STATIC-FAIL", x)
