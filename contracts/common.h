/* common.h - shared definitions for contracts (verifier build only) */
#ifndef VC_CONTRACTS_COMMON_H
#define VC_CONTRACTS_COMMON_H
#include <stddef.h>
#include <stdint.h>

/* machine-range bound on vector sizes for the unbounded (Tier A) contracts */
#ifndef VC_MAXN
#define VC_MAXN ((size_t)1 << 20)
#endif

/* ghost indices / values chosen by the harness */
size_t vc_k;
size_t vc_k2;
double vc_g0;

#endif
