/* contracts/libc.h - ASSUMED contract of libc memmove (not verified; listed in the trusted base), stated element-wise
 * through the ghost element index vc_k2 for elements of type VC_MEMMOVE_ELEM.  Used with
 * --replace-call-with-contract memmove so that RemoveAt is decided for every size without unwinding. */
#ifndef VC_CONTRACTS_LIBC_H
#define VC_CONTRACTS_LIBC_H
#if defined(VC_CBMC) && defined(VC_MEMMOVE_ELEM)
#include <stddef.h>
#include "common.h"
void *memmove(void *dest, const void *src, size_t n)
__CPROVER_requires(n == 0 || (__CPROVER_rw_ok(dest, n) && __CPROVER_r_ok(src, n)))
__CPROVER_assigns(n > 0: __CPROVER_object_upto(dest, n))
__CPROVER_ensures(__CPROVER_return_value == dest)
__CPROVER_ensures((vc_k2 < n / sizeof(VC_MEMMOVE_ELEM)) ==>
                  (((VC_MEMMOVE_ELEM *)dest)[vc_k2] == __CPROVER_old(((const VC_MEMMOVE_ELEM *)src)[vc_k2]) ||
                   (((VC_MEMMOVE_ELEM *)dest)[vc_k2] != ((VC_MEMMOVE_ELEM *)dest)[vc_k2] &&
                    __CPROVER_old(((const VC_MEMMOVE_ELEM *)src)[vc_k2]) != __CPROVER_old(((const VC_MEMMOVE_ELEM *)src)[vc_k2]))));
#endif
#endif
