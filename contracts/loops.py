"""Loop contracts for functions of /repo/src, keyed by function name and loop ordinal (goto-instrument's
loop ids: 0,1,2.. in program order inside the function).  They are passed to
`goto-instrument --loop-contracts-file`, so /repo is not edited.  The strings are C expressions in the scope of
the function; macros are expanded here because the file is not preprocessed.

A wrong entry can only make a proof fail (base/step/decreases/assigns are checked), never pass.
"""

EPS = "1e-3"
MISSING = "99999999"


def SAME(a, b):
    return "((%s) == (%s) || ((%s) != (%s) && (%s) != (%s)))" % (a, b, a, a, b, b)


def FLOAT_EQ(x, v, eps):
    return "(((%s) - %s) < (%s) && (%s) < ((%s) + %s))" % (v, eps, x, x, v, eps)


def OBJ(i, v):
    """loop assigns: the index and (when there is one) the whole data block of v"""
    return "%s; %s->data != 0: __CPROVER_object_whole(%s->data)" % (i, v, v)


def fill(v, val="0", i="i", extra=""):
    """for(i=0;i<v->size;i++) v->data[i] = val;"""
    return dict(assigns=OBJ(i, v),
                inv="0 <= %s && %s <= %s->size && (vc_k < %s ==> %s)%s" % (i, i, v, i, SAME("%s->data[vc_k]" % v, val), extra),
                dec="%s->size - %s" % (v, i))


def copy_into(dst, src, n, off="0", i="i", keep=None):
    """for(i=0;i<n;i++) dst->data[i+off] = src->data[i];  keep = (bound, othersrc): cells below `bound` equal othersrc"""
    inv = "0 <= %s && %s <= %s && ((vc_k >= %s && vc_k < %s + %s) ==> %s)" % (
        i, i, n, off, off, i, SAME("%s->data[vc_k]" % dst, "%s->data[vc_k - %s]" % (src, off)))
    if keep:
        inv += " && (vc_k < %s ==> %s)" % (keep[0], SAME("%s->data[vc_k]" % dst, "%s->data[vc_k]" % keep[1]))
    return dict(assigns=OBJ(i, dst), inv=inv, dec="%s - %s" % (n, i))


def scan(v, body_inv="", i="i", assigns=None):
    """read-only scan for(i=0;i<v->size;i++)"""
    inv = "0 <= %s && %s <= %s->size" % (i, i, v)
    if body_inv:
        inv += " && " + body_inv
    return dict(assigns=assigns or i, inv=inv, dec="%s->size - %s" % (v, i))


LOOPS = {}

# ---- dvector ---------------------------------------------------------------------------------
LOOPS["NewDVector"] = [fill("(*d)")]
LOOPS["DVectorResize"] = [fill("d")]
LOOPS["DVectorCopy"] = [
    fill("ddst"),
    fill("ddst"),
    copy_into("ddst", "dsrc", "ddst->size"),
]
LOOPS["DVectorExtend"] = [
    copy_into("dext", "d1", "d1->size"),
    copy_into("dext", "d2", "d2->size", off="d1->size", keep=("d1->size", "d1")),
]
LOOPS["DVectorHasValue"] = [scan("d", "(vc_k < i ==> !%s)" % FLOAT_EQ("d->data[vc_k]", "val", EPS))]
LOOPS["DVectorSet"] = [fill("v", "val")]
LOOPS["DVectorDVectorDotProd"] = [scan("v1", assigns="i, p")]
LOOPS["DvectorModule"] = [scan("v", assigns="i, sum")]
LOOPS["DVectNorm"] = [dict(assigns=OBJ("i", "nv"),
                           inv="i <= v->size && ((vc_k < i && %s) ==> nv->data[vc_k] == %s) && "
                               "((vc_k >= i && vc_k < v->size) ==> %s)" % (
                               FLOAT_EQ("vc_g0", MISSING, "1e-1"), MISSING,
                               SAME("v->data[vc_k]", "vc_g0")),
                           dec="v->size - i")]
LOOPS["DVectorMinMax"] = [dict(
    assigns="i; min != 0: *min; max != 0: *max",
    inv="i <= v->size && (min != 0 ==> (vc_k < i ==> !(v->data[vc_k] < *min))) && "
        "(max != 0 ==> (vc_k < i ==> !(v->data[vc_k] > *max)))",
    dec="v->size - i")]
LOOPS["DVectorMean"] = [scan("d", assigns="i, *mean")]
LOOPS["DVectorSDEV"] = [scan("d", assigns="i, *sdev")]

# ---- ivector ---------------------------------------------------------------------------------
LOOPS["NewIVector"] = [dict(assigns=OBJ("i", "(*d)"),
                            inv="0 <= i && (unsigned long)i <= (*d)->size && (vc_k < (unsigned long)i ==> (*d)->data[vc_k] == 0)",
                            dec="(*d)->size - (unsigned long)i")]
LOOPS["IVectorExtend"] = [
    dict(assigns=OBJ("i", "dext"),
         inv="0 <= i && (unsigned long)i <= d1->size && (vc_k < (unsigned long)i ==> dext->data[vc_k] == d1->data[vc_k])",
         dec="d1->size - (unsigned long)i"),
    dict(assigns=OBJ("i", "dext"),
         inv="0 <= i && (unsigned long)i <= d2->size && (vc_k < d1->size ==> dext->data[vc_k] == d1->data[vc_k]) && "
             "((vc_k >= d1->size && vc_k < d1->size + (unsigned long)i) ==> dext->data[vc_k] == d2->data[vc_k - d1->size])",
         dec="d2->size - (unsigned long)i"),
]
LOOPS["IVectorHasValue"] = [scan("d", "(vc_k < i ==> d->data[vc_k] != val)")]
LOOPS["IVectorSet"] = [fill("d", "val")]

# ---- uivector --------------------------------------------------------------------------------
LOOPS["NewUIVector"] = [fill("(*d)")]
LOOPS["UIVectorResize"] = [fill("d")]
LOOPS["UIVectorExtend"] = LOOPS["DVectorExtend"]
LOOPS["UIVectorHasValue"] = [scan("u", "(vc_k < i ==> u->data[vc_k] != id)")]
LOOPS["UIVectorIndexOf"] = [scan("u", "(vc_k < i ==> u->data[vc_k] != id)")]
LOOPS["UIVectorSet"] = [fill("d", "val")]

