/* contracts/matrix.h - contracts on the real container functions of /repo/src/matrix.c (re-declarations).
 * `matrix` is double**: one heap block per row, so frames are conditional per-row targets and the contracts hold
 * for matrices of at most VC_NR rows/columns (bounded tier).  Cell contents are checked by the harness over all
 * cells of the (concrete) shape; the contract carries representation invariant, shape and frame. */
#ifndef VC_CONTRACTS_MATRIX_H
#define VC_CONTRACTS_MATRIX_H
#ifdef VC_CBMC
#include "common.h"
#include "matrix.h"
#include "vector.h"
#include "contracts/matrix_shape.h"
#include "contracts/vector.h"

#define VC_MAX(a, b) ((a) > (b) ? (a) : (b))

void initMatrix(matrix **m)
__CPROVER_requires(__CPROVER_rw_ok(m, sizeof(*m)))
__CPROVER_assigns(*m)
__CPROVER_ensures(__CPROVER_is_fresh(*m, sizeof(matrix)) && (*m)->row == 0 && (*m)->col == 0 && (*m)->data == NULL);

void NewMatrix(matrix **m, size_t row_, size_t col_)
__CPROVER_requires(__CPROVER_rw_ok(m, sizeof(*m)) && row_ <= VC_NR && col_ <= VC_NR)
__CPROVER_assigns(*m)
__CPROVER_ensures(__CPROVER_is_fresh(*m, sizeof(matrix)))
__CPROVER_ensures((*m)->row == row_ && (*m)->col == col_ && VC_MX_WF(*m))
__CPROVER_ensures((vc_k < row_ && vc_k2 < col_) ==> (*m)->data[vc_k][vc_k2] == 0);

void DelMatrix(matrix **m)
__CPROVER_requires(__CPROVER_rw_ok(m, sizeof(*m)) && VC_MX_WF(*m) && __CPROVER_is_freeable(*m))
__CPROVER_assigns()
__CPROVER_frees(*m, (*m)->data; VC_MX_FREE_ROWS(*m))
__CPROVER_ensures(__CPROVER_was_freed(__CPROVER_old(*m)));

void ResizeMatrix(matrix *m, size_t row_, size_t col_)
__CPROVER_requires(VC_MX_WF(m) && row_ <= VC_NR && col_ <= VC_NR)
__CPROVER_assigns(m->data, m->row, m->col; VC_MX_ROWS(m))
__CPROVER_frees(m->data; VC_MX_FREE_ROWS(m))
__CPROVER_ensures(m->row == row_ && m->col == col_ && VC_MX_WF(m))
__CPROVER_ensures((vc_k < row_ && vc_k2 < col_) ==> m->data[vc_k][vc_k2] == 0);

void MatrixSet(matrix *m, double val)
__CPROVER_requires(VC_MX_WF(m))
__CPROVER_assigns(VC_MX_ROWS(m))
__CPROVER_ensures(VC_MX_WF(m))
__CPROVER_ensures((vc_k < m->row && vc_k2 < m->col) ==> VC_EQ(m->data[vc_k][vc_k2], val));

void MatrixCopy(matrix *msrc, matrix **mdst)
__CPROVER_requires(VC_MX_WF(msrc) && __CPROVER_rw_ok(mdst, sizeof(*mdst)) && VC_MX_WF(*mdst) && __CPROVER_is_freeable(*mdst) &&
                   VC_MX_SEP1(*mdst, msrc) && !__CPROVER_same_object(mdst, msrc))
__CPROVER_assigns(*mdst, (*mdst)->row, (*mdst)->col, (*mdst)->data; VC_MX_ROWS(*mdst))
__CPROVER_frees(*mdst, (*mdst)->data; VC_MX_FREE_ROWS(*mdst))
__CPROVER_ensures((*mdst)->row == msrc->row && (*mdst)->col == msrc->col && VC_MX_WF(*mdst))
__CPROVER_ensures(VC_MX_SEP1(*mdst, msrc)) /* deep copy */
__CPROVER_ensures((vc_k < msrc->row && vc_k2 < msrc->col) ==> VC_EQ((*mdst)->data[vc_k][vc_k2], msrc->data[vc_k][vc_k2]));

void setMatrixValue(matrix *m, size_t row, size_t col, double val)
__CPROVER_requires(VC_MX_WF(m))
__CPROVER_assigns(VC_MX_ROWS(m))
__CPROVER_ensures(VC_MX_WF(m))
__CPROVER_ensures((row < m->row && col < m->col) ==>
                  VC_EQ(m->data[row][col], ((_isnan_(val) || _isinf_(val)) ? (double)MISSING : val)));

double getMatrixValue(matrix *m, size_t row, size_t col)
__CPROVER_requires(VC_MX_WF(m))
__CPROVER_assigns()
__CPROVER_ensures((row < m->row && col < m->col) ? VC_EQ(__CPROVER_return_value, m->data[row][col])
                                                 : (__CPROVER_return_value != __CPROVER_return_value));

dvector *getMatrixRow(matrix *m, size_t row)
__CPROVER_requires(VC_MX_WF(m))
__CPROVER_assigns()
__CPROVER_ensures(row >= m->row ==> __CPROVER_return_value == NULL)
__CPROVER_ensures(row < m->row ==> (__CPROVER_is_fresh(__CPROVER_return_value, sizeof(dvector)) &&
                                    __CPROVER_return_value->size == m->col && VC_DV_WF(__CPROVER_return_value)))
__CPROVER_ensures((row < m->row && vc_k < m->col) ==> VC_EQ(__CPROVER_return_value->data[vc_k], m->data[row][vc_k]));

dvector *getMatrixColumn(matrix *m, size_t col)
__CPROVER_requires(VC_MX_WF(m))
__CPROVER_assigns()
__CPROVER_ensures(col >= m->col ==> __CPROVER_return_value == NULL)
__CPROVER_ensures(col < m->col ==> (__CPROVER_is_fresh(__CPROVER_return_value, sizeof(dvector)) &&
                                    __CPROVER_return_value->size == m->row && VC_DV_WF(__CPROVER_return_value)))
__CPROVER_ensures((col < m->col && vc_k < m->row) ==> VC_EQ(__CPROVER_return_value->data[vc_k], m->data[vc_k][col]));

/* append a row of any length (shorter, equal, longer, empty) */
#define VC_APPENDROW_CONTRACT(F, VT, WF)                                                                    \
  void F(matrix *m, VT *row)                                                                                \
  __CPROVER_requires(VC_MX_WF(m) && WF(row) && m->row < VC_NR && row->size <= VC_NR &&                      \
                     !__CPROVER_same_object(row, m) && !__CPROVER_same_object(row, m->data))                \
  __CPROVER_assigns(m->data, m->row, m->col; m->data != NULL: __CPROVER_object_whole(m->data); VC_MX_ROWS(m)) \
  __CPROVER_frees(m->data; VC_MX_FREE_ROWS(m))                                                              \
  __CPROVER_ensures(m->row == __CPROVER_old(m->row) + 1)                                                    \
  __CPROVER_ensures(m->col == (__CPROVER_old(m->col) != 0 ? VC_MAX(__CPROVER_old(m->col), row->size) : row->size)) \
  __CPROVER_ensures(VC_MX_WF(m));
VC_APPENDROW_CONTRACT(MatrixAppendRow, dvector, VC_DV_WF)
VC_APPENDROW_CONTRACT(MatrixAppendUIRow, uivector, VC_UIV_WF)

/* append a column of any length (shorter, equal, longer, empty) */
#define VC_APPENDCOL_CONTRACT(F, VT, WF)                                                                    \
  void F(matrix *m, VT *col)                                                                                \
  __CPROVER_requires(VC_MX_WF(m) && WF(col) && m->col < VC_NR && col->size <= VC_NR &&                      \
                     !__CPROVER_same_object(col, m) && !__CPROVER_same_object(col, m->data))                \
  __CPROVER_assigns(m->data, m->row, m->col; m->data != NULL: __CPROVER_object_whole(m->data); VC_MX_ROWS(m)) \
  __CPROVER_frees(m->data; VC_MX_FREE_ROWS(m))                                                              \
  __CPROVER_ensures(m->col == __CPROVER_old(m->col) + 1)                                                    \
  __CPROVER_ensures(m->row == (__CPROVER_old(m->row) != 0 ? VC_MAX(__CPROVER_old(m->row), col->size) : col->size)) \
  __CPROVER_ensures(VC_MX_WF(m));
VC_APPENDCOL_CONTRACT(MatrixAppendCol, dvector, VC_DV_WF)
VC_APPENDCOL_CONTRACT(MatrixAppendUICol, uivector, VC_UIV_WF)

/* deleting an existing row / column (index in range is the precondition read off the code: the routine
 * sizes the result as row-1 unconditionally) */
void MatrixDeleteRowAt(matrix *m, size_t row)
__CPROVER_requires(VC_MX_WF(m) && row < m->row)
__CPROVER_assigns(m->data, m->row, m->col; VC_MX_ROWS(m))
__CPROVER_frees(m->data; VC_MX_FREE_ROWS(m))
__CPROVER_ensures(m->row == __CPROVER_old(m->row) - 1 && m->col == __CPROVER_old(m->col) && VC_MX_WF(m));

void MatrixDeleteColAt(matrix *m, size_t col)
__CPROVER_requires(VC_MX_WF(m) && col < m->col)
__CPROVER_assigns(m->data, m->row, m->col; VC_MX_ROWS(m))
__CPROVER_frees(m->data; VC_MX_FREE_ROWS(m))
__CPROVER_ensures(m->col == __CPROVER_old(m->col) - 1 && m->row == __CPROVER_old(m->row) && VC_MX_WF(m));

#endif
#endif
