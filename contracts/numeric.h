/* contracts/numeric.h - contracts of the pseudo-random generator of /repo/src/numeric.c */
#ifndef VC_CONTRACTS_NUMERIC_H
#define VC_CONTRACTS_NUMERIC_H
#ifdef VC_CBMC
#include "common.h"
#include "numeric.h"
#include <limits.h>
extern
#ifdef VC_RNG_TLS
__thread
#endif
uint32_t XOR128_SEED;
uint32_t generate_seed(uint32_t seed);
/* ghost state of the harness (opaque step function record, clock monitor): part of every frame below */
extern uint32_t vc_gs_in[4], vc_gs_out[4];
extern unsigned vc_gs_calls;
extern int clock_consulted;
#define VC_RNG_GHOST vc_gs_calls, clock_consulted, __CPROVER_object_whole(vc_gs_in), __CPROVER_object_whole(vc_gs_out)

/* frame: the generator state and nothing else */
void srand_(uint32_t seed)
__CPROVER_assigns(XOR128_SEED, VC_RNG_GHOST)
__CPROVER_ensures(1);

int randInt(int low, int high)
__CPROVER_requires(low < high && (long)high - (long)low <= INT_MAX && XOR128_SEED != 0)
__CPROVER_assigns(XOR128_SEED, VC_RNG_GHOST)
__CPROVER_ensures(low <= __CPROVER_return_value && __CPROVER_return_value < high);

double rand_(void)
__CPROVER_requires(XOR128_SEED != 0)
__CPROVER_assigns(XOR128_SEED, VC_RNG_GHOST)
__CPROVER_ensures(__CPROVER_return_value >= 0.0 && __CPROVER_return_value <= 4294967295.0);

double randDouble(double low, double high)
__CPROVER_requires(XOR128_SEED != 0)
__CPROVER_assigns(XOR128_SEED, VC_RNG_GHOST)
__CPROVER_ensures(1);
#endif
#endif
