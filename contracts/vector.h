/* contracts/vector.h - contracts on the real functions of /repo/src/vector.c, attached to
 * re-declarations (the definitions are compiled unchanged from /repo).  Verifier build only.
 *
 * Ghost index vc_k (chosen nondeterministically by the harness) stands for "every cell".
 */
#ifndef VC_CONTRACTS_VECTOR_H
#define VC_CONTRACTS_VECTOR_H
#ifdef VC_CBMC
#include "common.h"
#include "vector.h"
#include "numeric.h"
#include "contracts/libc.h"

/* representation invariant of dvector/uivector/ivector:
 *   struct live; size in machine range; data NULL or the start of a live heap block (so it can be
 *   realloc'ed / freed) that holds at least size cells. */
#define VC_VEC_WF(v, T)                                                     \
  (__CPROVER_rw_ok((v), sizeof(*(v))) && (v)->size <= VC_MAXN &&            \
   __CPROVER_is_freeable((v)->data) &&                                      \
   ((v)->size == 0 || __CPROVER_rw_ok((v)->data, (v)->size * sizeof(T))))
#define VC_DV_WF(v) VC_VEC_WF(v, double)
#define VC_UIV_WF(v) VC_VEC_WF(v, size_t)
#define VC_IV_WF(v) VC_VEC_WF(v, int)
#define VC_SEP(a, b) (!__CPROVER_same_object((a), (b)))
/* old value of cell k of v.  DFCC snapshots *p as (R_OK(p) ? *p : nondet), so an out-of-range ghost index is
 * harmless; every use below is guarded by "k < old size". */
#define VC_OLDCELL(v, k) __CPROVER_old((v)->data[(k)])
#define VC_EQ(a, b) (((a) == (b)) || (((a) != (a)) && ((b) != (b))))

/* ---------------------------------------------------------------- generic part, per vector kind */
#define VC_VECTOR_CONTRACTS(P, T, E)                                                              \
  void init##P(T **d)                                                                             \
  __CPROVER_requires(__CPROVER_rw_ok(d, sizeof(*d)))                                              \
  __CPROVER_assigns(*d)                                                                           \
  __CPROVER_ensures(__CPROVER_is_fresh(*d, sizeof(T)) && (*d)->size == 0 && (*d)->data == NULL);  \
                                                                                                  \
  void New##P(T **d, size_t size)                                                                 \
  __CPROVER_requires(__CPROVER_rw_ok(d, sizeof(*d)) && size <= VC_MAXN)                           \
  __CPROVER_assigns(*d)                                                                           \
  __CPROVER_ensures(__CPROVER_is_fresh(*d, sizeof(T)))                                            \
  __CPROVER_ensures((*d)->size == size)                                                           \
  __CPROVER_ensures(__CPROVER_is_fresh((*d)->data, size * sizeof(E)))                             \
  __CPROVER_ensures(VC_VEC_WF(*d, E))                                                             \
  __CPROVER_ensures(vc_k < size ==> (*d)->data[vc_k] == 0);                                       \
                                                                                                  \
  void Del##P(T **d)                                                                              \
  __CPROVER_requires(__CPROVER_rw_ok(d, sizeof(*d)) && VC_VEC_WF(*d, E) &&                        \
                     __CPROVER_is_freeable(*d) && VC_SEP(*d, (*d)->data))                         \
  __CPROVER_assigns()                                                                             \
  __CPROVER_frees(*d, (*d)->data)                                                                 \
  __CPROVER_ensures(__CPROVER_was_freed(__CPROVER_old(*d)))                                       \
  __CPROVER_ensures(__CPROVER_old((*d)->data) == NULL ||                                          \
                    __CPROVER_was_freed(__CPROVER_old((*d)->data)));                              \
                                                                                                  \
  void P##Append(T *d, E val)                                                                     \
  __CPROVER_requires(VC_VEC_WF(d, E) && d->size < VC_MAXN && VC_SEP(d, d->data))                  \
  __CPROVER_assigns(d->size, d->data; d->data != NULL: __CPROVER_object_whole(d->data))                            \
  __CPROVER_frees(d->data)                                                                        \
  __CPROVER_ensures(d->size == __CPROVER_old(d->size) + 1)                                        \
  __CPROVER_ensures(__CPROVER_is_fresh(d->data, d->size * sizeof(E)))                             \
  __CPROVER_ensures(VC_VEC_WF(d, E) && VC_SEP(d, d->data))                                        \
  __CPROVER_ensures(VC_EQ(d->data[d->size - 1], val))                                             \
  __CPROVER_ensures(vc_k < __CPROVER_old(d->size) ==> VC_EQ(d->data[vc_k], VC_OLDCELL(d, vc_k))); \
                                                                                                  \
  void P##RemoveAt(T *d, size_t indx)                                                             \
  __CPROVER_requires(VC_VEC_WF(d, E) && VC_SEP(d, d->data))                                       \
  /* ghost binding for the memmove contract: its element index is the ghost cell relative to indx */ \
  __CPROVER_requires(indx < d->size ==> vc_k2 == vc_k - indx)                                     \
  __CPROVER_assigns(d->size; d->data != NULL: __CPROVER_object_whole(d->data))                                     \
  __CPROVER_ensures(VC_VEC_WF(d, E) && d->data == __CPROVER_old(d->data))                         \
  __CPROVER_ensures(d->size == (indx < __CPROVER_old(d->size) ? __CPROVER_old(d->size) - 1        \
                                                             : __CPROVER_old(d->size)))           \
  __CPROVER_ensures((vc_k < d->size && (vc_k < indx || indx >= __CPROVER_old(d->size))) ==>       \
                    VC_EQ(d->data[vc_k], VC_OLDCELL(d, vc_k)))                                    \
  __CPROVER_ensures((vc_k < d->size && vc_k >= indx) ==>                                          \
                    VC_EQ(d->data[vc_k], VC_OLDCELL(d, vc_k + 1)));                               \
                                                                                                  \
  T *P##Extend(T *d1, T *d2)                                                                      \
  __CPROVER_requires(VC_VEC_WF(d1, E) && VC_VEC_WF(d2, E) && d1->size + d2->size <= VC_MAXN)      \
  __CPROVER_assigns()                                                                             \
  __CPROVER_ensures(__CPROVER_is_fresh(__CPROVER_return_value, sizeof(T)))                        \
  __CPROVER_ensures(__CPROVER_return_value->size == d1->size + d2->size)                          \
  __CPROVER_ensures(__CPROVER_is_fresh(__CPROVER_return_value->data,                              \
                                       (d1->size + d2->size) * sizeof(E)))                        \
  __CPROVER_ensures(VC_VEC_WF(__CPROVER_return_value, E))                                         \
  __CPROVER_ensures(vc_k < d1->size ==>                                                           \
                    VC_EQ(__CPROVER_return_value->data[vc_k], d1->data[vc_k]))                    \
  __CPROVER_ensures((vc_k >= d1->size && vc_k < d1->size + d2->size) ==>                          \
                    VC_EQ(__CPROVER_return_value->data[vc_k], d2->data[vc_k - d1->size]));        \
                                                                                                  \
  E get##P##Value(T *d, size_t id)                                                                \
  __CPROVER_requires(VC_VEC_WF(d, E))                                                             \
  __CPROVER_assigns()                                                                             \
  __CPROVER_ensures(id < d->size) /* returns only for an index in range: clean abort otherwise */ \
  __CPROVER_ensures(VC_EQ(__CPROVER_return_value, d->data[id]));                                  \
                                                                                                  \
  void P##Set(T *d, E val)                                                                        \
  __CPROVER_requires(VC_VEC_WF(d, E) && VC_SEP(d, d->data))                                       \
  __CPROVER_assigns(d->data != NULL: __CPROVER_object_whole(d->data))                                              \
  __CPROVER_ensures(vc_k < d->size ==> VC_EQ(d->data[vc_k], val));

VC_VECTOR_CONTRACTS(DVector, dvector, double)
VC_VECTOR_CONTRACTS(UIVector, uivector, size_t)
VC_VECTOR_CONTRACTS(IVector, ivector, int)

/* ---------------------------------------------------------------- kind-specific */
#define VC_RESIZE_CONTRACT(P, T, E)                                                               \
  void P##Resize(T *d, size_t size_)                                                              \
  __CPROVER_requires(VC_VEC_WF(d, E) && size_ <= VC_MAXN && VC_SEP(d, d->data))                   \
  __CPROVER_assigns(d->size, d->data)                                                             \
  __CPROVER_frees(d->data)                                                                        \
  __CPROVER_ensures(d->size == size_)                                                             \
  __CPROVER_ensures(__CPROVER_is_fresh(d->data, size_ * sizeof(E)))                               \
  __CPROVER_ensures(VC_VEC_WF(d, E) && VC_SEP(d, d->data))                                        \
  __CPROVER_ensures(vc_k < size_ ==> d->data[vc_k] == 0);
VC_RESIZE_CONTRACT(DVector, dvector, double)
VC_RESIZE_CONTRACT(UIVector, uivector, size_t)

/* out-of-range set: dvector aborts; uivector/ivector print and leave the vector untouched */
void setDVectorValue(dvector *d, size_t id, double val)
__CPROVER_requires(VC_DV_WF(d) && VC_SEP(d, d->data))
__CPROVER_assigns(d->data != NULL: __CPROVER_object_whole(d->data))
__CPROVER_ensures(id < d->size && VC_EQ(d->data[id], val))
__CPROVER_ensures((vc_k < d->size && vc_k != id) ==> VC_EQ(d->data[vc_k], VC_OLDCELL(d, vc_k)));

#define VC_SOFTSET_CONTRACT(P, T, E)                                                              \
  void set##P##Value(T *d, size_t id, E val)                                                      \
  __CPROVER_requires(VC_VEC_WF(d, E) && VC_SEP(d, d->data))                                       \
  __CPROVER_assigns(d->data != NULL: __CPROVER_object_whole(d->data))                                              \
  __CPROVER_ensures(id < d->size ==> d->data[id] == val)                                          \
  __CPROVER_ensures((vc_k < d->size && vc_k != id) ==> d->data[vc_k] == VC_OLDCELL(d, vc_k));
VC_SOFTSET_CONTRACT(UIVector, uivector, size_t)
VC_SOFTSET_CONTRACT(IVector, ivector, int)

void DVectorCopy(dvector *dsrc, dvector *ddst)
__CPROVER_requires(VC_DV_WF(dsrc) && VC_DV_WF(ddst) && VC_SEP(dsrc, ddst) && VC_SEP(ddst, ddst->data) &&
                   VC_SEP(dsrc->data, ddst) && VC_SEP(dsrc, ddst->data) &&
                   (dsrc->data == NULL || VC_SEP(dsrc->data, ddst->data)))
__CPROVER_assigns(ddst->size, ddst->data; ddst->data != NULL: __CPROVER_object_whole(ddst->data))
__CPROVER_frees(ddst->data)
__CPROVER_ensures(ddst->size == dsrc->size)
__CPROVER_ensures(__CPROVER_is_fresh(ddst->data, ddst->size * sizeof(double)))
__CPROVER_ensures(VC_DV_WF(ddst) && VC_SEP(ddst, ddst->data))
__CPROVER_ensures(vc_k < dsrc->size ==> VC_EQ(ddst->data[vc_k], dsrc->data[vc_k]))
__CPROVER_ensures(dsrc->data == NULL || VC_SEP(dsrc->data, ddst->data)) /* deep copy */;

int DVectorHasValue(dvector *d, double val)
__CPROVER_requires(VC_DV_WF(d))
__CPROVER_assigns()
__CPROVER_ensures(__CPROVER_return_value == 0 || __CPROVER_return_value == 1)
__CPROVER_ensures((__CPROVER_return_value == 1 && vc_k < d->size) ==> !FLOAT_EQ(d->data[vc_k], val, EPSILON));

int UIVectorHasValue(uivector *u, size_t id)
__CPROVER_requires(VC_UIV_WF(u))
__CPROVER_assigns()
__CPROVER_ensures(__CPROVER_return_value == 0 || __CPROVER_return_value == 1)
__CPROVER_ensures((__CPROVER_return_value == 1 && vc_k < u->size) ==> u->data[vc_k] != id);

int IVectorHasValue(ivector *d, int val)
__CPROVER_requires(VC_IV_WF(d))
__CPROVER_assigns()
__CPROVER_ensures(__CPROVER_return_value == 0 || __CPROVER_return_value == 1)
__CPROVER_ensures((__CPROVER_return_value == 1 && vc_k < d->size) ==> d->data[vc_k] != val);

int UIVectorIndexOf(uivector *u, size_t id)
__CPROVER_requires(VC_UIV_WF(u))
__CPROVER_assigns()
__CPROVER_ensures(__CPROVER_return_value >= -1 && (__CPROVER_return_value == -1 || (size_t)__CPROVER_return_value < u->size))
__CPROVER_ensures(__CPROVER_return_value >= 0 ==> u->data[__CPROVER_return_value] == id)
/* first occurrence */
__CPROVER_ensures((__CPROVER_return_value >= 0 && vc_k < (size_t)__CPROVER_return_value) ==> u->data[vc_k] != id)
__CPROVER_ensures((__CPROVER_return_value == -1 && vc_k < u->size) ==> u->data[vc_k] != id);

void DVectorMinMax(dvector *v, double *min, double *max)
__CPROVER_requires(VC_DV_WF(v))
__CPROVER_requires(min == NULL || (__CPROVER_rw_ok(min, sizeof(double)) && VC_SEP(min, v->data) && VC_SEP(min, v)))
__CPROVER_requires(max == NULL || (__CPROVER_rw_ok(max, sizeof(double)) && VC_SEP(max, v->data) && VC_SEP(max, v)))
__CPROVER_assigns(min != NULL: *min; max != NULL: *max)
__CPROVER_ensures(v->size > 0) /* empty vector: clean abort */
__CPROVER_ensures((min != NULL && vc_k < v->size) ==> !(v->data[vc_k] < *min))
__CPROVER_ensures((max != NULL && vc_k < v->size) ==> !(v->data[vc_k] > *max));

double DvectorModule(dvector *v)
__CPROVER_requires(VC_DV_WF(v))
__CPROVER_assigns()
__CPROVER_ensures(1);

double DVectorDVectorDotProd(dvector *v1, dvector *v2)
__CPROVER_requires(VC_DV_WF(v1) && VC_DV_WF(v2) && v2->size >= v1->size)
__CPROVER_assigns()
__CPROVER_ensures(1);

/* v and nv of any sizes are valid operands, and nv may be v itself (every caller in the library normalises in
 * place): the routine must either write only inside nv or abort */
void DVectNorm(dvector *v, dvector *nv)
__CPROVER_requires(VC_DV_WF(v) && VC_DV_WF(nv) && VC_SEP(nv, nv->data) && VC_SEP(v, nv->data) && VC_SEP(v, v->data))
__CPROVER_requires(v == nv || (VC_SEP(v, nv) && (v->data == NULL || VC_SEP(v->data, nv->data)) &&
                               (v->data == NULL || VC_SEP(v->data, nv))))
/* ghost binding: vc_g0 names the entry value of cell vc_k (restricts no real input) */
__CPROVER_requires(vc_k < v->size ==> VC_EQ(v->data[vc_k], vc_g0))
__CPROVER_assigns(nv->data != NULL: __CPROVER_object_whole(nv->data))
__CPROVER_ensures(nv->size >= v->size && nv->size != 0)
__CPROVER_ensures((vc_k < v->size && FLOAT_EQ(vc_g0, MISSING, 1e-1)) ==> nv->data[vc_k] == MISSING);

void DVectorMean(dvector *d, double *mean)
__CPROVER_requires(VC_DV_WF(d) && __CPROVER_rw_ok(mean, sizeof(double)) && VC_SEP(mean, d) && VC_SEP(mean, d->data))
__CPROVER_assigns(*mean)
__CPROVER_ensures(1);

void DVectorSDEV(dvector *d, double *sdev)
__CPROVER_requires(VC_DV_WF(d) && __CPROVER_rw_ok(sdev, sizeof(double)) && VC_SEP(sdev, d) && VC_SEP(sdev, d->data))
__CPROVER_assigns(*sdev)
__CPROVER_ensures(1);

#endif
#endif
