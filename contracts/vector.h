/* contracts/vector.h - contracts on the real functions of /repo/src/vector.c,
 * attached to re-declarations (the definitions are compiled unchanged).
 * Verifier build only. */
#ifndef VC_CONTRACTS_VECTOR_H
#define VC_CONTRACTS_VECTOR_H
#ifdef VC_CBMC
#include "common.h"
#include "vector.h"

/* representation invariant of dvector/uivector/ivector:
 *   struct live; size in machine range; data NULL or the start of a live heap
 *   block (so it can be realloc'ed / freed) that holds at least size cells. */
#define VC_VEC_WF(v, T)                                                     \
  (__CPROVER_rw_ok((v), sizeof(*(v))) && (v)->size <= VC_MAXN &&            \
   __CPROVER_is_freeable((v)->data) &&                                      \
   ((v)->size == 0 || __CPROVER_rw_ok((v)->data, (v)->size * sizeof(T))))
#define VC_DV_WF(v) VC_VEC_WF(v, double)
#define VC_UIV_WF(v) VC_VEC_WF(v, size_t)
#define VC_IV_WF(v) VC_VEC_WF(v, int)

void NewDVector(dvector **d, size_t size)
__CPROVER_requires(__CPROVER_rw_ok(d, sizeof(*d)) && size <= VC_MAXN)
__CPROVER_assigns(*d)
__CPROVER_ensures(VC_DV_WF(*d) && (*d)->size == size)
__CPROVER_ensures(__CPROVER_is_fresh(*d, sizeof(dvector)))
__CPROVER_ensures(vc_k < size ==> (*d)->data[vc_k] == 0.0)
;

#endif
#endif
