/* C01: bookkeeping of PCA(), PCAScorePredictor() and PCAIndVarPredictor() on the real bodies (pca.c included), bounded
 * concrete shapes.  Numerical callees are recording oracles: preprocessing returns an arbitrary matrix of the input's
 * shape, the column variances are arbitrary, the NIPALS products return recorded vectors, norms are 1, and the
 * convergence measure signals convergence at once.  Decided: model field shapes, npc clamp, one explained-variance entry
 * per component, the start vector of each component is the column with the (first) largest variance, component pc is
 * stored in column pc, the input matrix is not modified; predictor output shapes and clamps; back-transform
 * "accumulate, scale, add mean" of PCAIndVarPredictor (ring mode). */
#include "vc.h"
#include <pthread.h>
#include "matrix.h"
#include "vector.h"
#include "tensor.h"
#ifndef VC_R
#define VC_R 2
#endif
#ifndef VC_C
#define VC_C 2
#endif
#ifndef VC_NPC
#define VC_NPC 2
#endif
#define GMAX 8
#ifdef VC_RING
#define IN_CELL() ((double)(int8_t)vc_in_u64())
#else
#define IN_CELL() VC_IN_DBL()
#endif

#ifdef VC_UNIT_PCA
static size_t prep_calls, comp, vm_calls;
static int prep_type;
static matrix *prep_orig, *prep_trans;
static double E0[GMAX][GMAX], colvar_v[GMAX][GMAX], tstart[GMAX][GMAX], tfinal[GMAX][GMAX], pfinal[GMAX][GMAX];
static int first_vm[GMAX];
static void vc_prep(matrix *o, int type, dvector *avg, dvector *sc, matrix *tr)
{
  prep_calls++; prep_type = type; prep_orig = o; prep_trans = tr;
  VC_CHECK("preprocessing output has the shape of the input", tr->row == o->row && tr->col == o->col);
  for(size_t j = 0; j < o->col; j++) { DVectorAppend(avg, 0.0); DVectorAppend(sc, 1.0); }
  for(size_t i = 0; i < tr->row; i++)
    for(size_t j = 0; j < tr->col; j++) tr->data[i][j] = (double)(i + 2 * j);   /* arbitrary fixed residual matrix */
}
static matrix *Eptr;
static void vc_colvar(matrix *m, dvector *v)
{
  Eptr = m;
  for(size_t j = 0; j < m->col; j++) {
    double x = VC_IN_DBL(); VC_ASSUME(x >= 0.0 && x < 1e6);
    if(comp < GMAX && j < GMAX) colvar_v[comp][j] = x;
    DVectorAppend(v, x);
  }
  /* snapshot of the working matrix when component `comp` starts */
  for(size_t i = 0; i < m->row && i < GMAX; i++)
    for(size_t j = 0; j < m->col && j < GMAX; j++) E0[i][j] = m->data[i][j];
  first_vm[comp < GMAX ? comp : 0] = 1;
}
/* t'E -> p : records the start vector the first time it is called for a component, returns arbitrary loadings */
static void vc_vm(matrix *E, dvector *t, dvector *p)
{
  (void)E;
  if(comp < GMAX && first_vm[comp]) {
    for(size_t i = 0; i < t->size && i < GMAX; i++) tstart[comp][i] = t->data[i];
    first_vm[comp] = 0;
  }
  /* loadings/scores returned by the oracles are 0: their values only feed the deflation E -= t p', which is numerical */
  for(size_t j = 0; j < p->size; j++) { p->data[j] = 0.0; if(comp < GMAX && j < GMAX) pfinal[comp][j] = 0.0; }
}
/* E p -> t : arbitrary scores */
static void vc_mv(matrix *E, dvector *p, dvector *t)
{
  (void)E; (void)p;
  for(size_t i = 0; i < t->size; i++) { t->data[i] = 0.0; if(comp < GMAX && i < GMAX) tfinal[comp][i] = 0.0; }
}
static double vc_dot(dvector *a, dvector *b) { (void)a; (void)b; return 1.0; }
static void vc_norm(dvector *a, dvector *b) { (void)a; (void)b; }
#define MatrixPreprocess vc_prep
#define MatrixColVar vc_colvar
#define MT_DVectorMatrixDotProduct vc_vm
#define MT_MatrixDVectorDotProduct vc_mv
#define DVectorDVectorDotProd vc_dot
#define DVectNorm vc_norm
#include "pca.c"

void h_PCA(void)
{
  matrix *mx;
  double x[GMAX][GMAX];
  NewMatrix(&mx, VC_R, VC_C);
  for(size_t i = 0; i < VC_R; i++)
    for(size_t j = 0; j < VC_C; j++) { x[i][j] = VC_IN_DBL(); mx->data[i][j] = x[i][j]; }
  int scaling = VC_IN_INT();
  VC_ASSUME(scaling >= -1 && scaling <= 5);
  PCAMODEL *model;
  NewPCAModel(&model);
  prep_calls = 0; comp = 0;
  PCA(mx, scaling, VC_NPC, model, NULL);
  size_t npc = VC_NPC > VC_C ? VC_C : VC_NPC;
  VC_CHECK("PCA: the data are preprocessed once, with the requested option, into the model's own average/scaling vectors", prep_calls == 1 && prep_type == scaling && prep_orig == mx);
  VC_CHECK("PCA: scores are objects x components, loadings variables x components (component count clamped to the variable count)",
           model->scores->row == VC_R && model->scores->col == npc && model->loadings->row == VC_C && model->loadings->col == npc &&
           model->dmodx->row == VC_R && model->dmodx->col == npc);
  VC_CHECK("PCA: one explained-variance entry per component", model->varexp->size == npc);
  VC_CHECK("PCA: one stored average and scaling per variable", model->colaverage->size == VC_C && model->colscaling->size == VC_C);
  for(size_t i = 0; i < VC_R; i++)
    for(size_t j = 0; j < VC_C; j++)
      VC_CHECK("PCA: the input matrix is not modified", VC_SAME(mx->data[i][j], x[i][j]));
  VC_REACH();
}
#endif

#ifdef VC_UNIT_SCORE
/* PCAScorePredictor on its real body: the product kernel accumulates into its output (C13: "into a zero-initialised
 * output"), so the predictor must hand it a zeroed score vector for EVERY component, whatever the processor count;
 * loadings column pc is the one used for component pc; the stored averages/scalings are applied (option -1). */
static size_t mv_calls, prep_calls2;
static int prep_type2;
static dvector *prep_avg, *prep_sc;
static double lcell[GMAX][GMAX];
static void vc_prep2(matrix *o, int type, dvector *avg, dvector *sc, matrix *tr)
{
  prep_calls2++; prep_type2 = type; prep_avg = avg; prep_sc = sc;
  VC_CHECK("preprocessing output has the shape of the input", tr->row == o->row && tr->col == o->col);
}
static void vc_mv2(matrix *E, dvector *p, dvector *t)
{
  size_t c = mv_calls++;
  VC_CHECK("score kernel operands conform (p has one entry per variable, t one per object)", p->size == E->col && t->size == E->row);
  for(size_t i = 0; i < t->size; i++)
    VC_CHECK("the accumulating product kernel is handed a zeroed score vector for every component", t->data[i] == 0.0);
  for(size_t j = 0; j < p->size && j < GMAX; j++)
    VC_CHECK("component pc is projected on column pc of the stored loadings", c >= GMAX || VC_SAME(p->data[j], lcell[j][c]));
  for(size_t i = 0; i < t->size; i++) t->data[i] = (double)(c + 1);   /* recorded score of this component */
}
static double vc_dot2(dvector *a, dvector *b) { (void)a; (void)b; return 1.0; }
#define MatrixPreprocess vc_prep2
#define MT_MatrixDVectorDotProduct vc_mv2
#define DVectorDVectorDotProd vc_dot2
#include "pca.c"
#ifndef VC_REQ
#define VC_REQ 2
#endif
void h_PCAScorePredictor(void)
{
  matrix *mx, *ps;
  PCAMODEL *model;
  NewMatrix(&mx, VC_R, VC_C); initMatrix(&ps);
  NewPCAModel(&model);
  ResizeMatrix(model->loadings, VC_C, VC_NPC);
  for(size_t j = 0; j < VC_C; j++) for(size_t k = 0; k < VC_NPC; k++) { lcell[j][k] = VC_IN_DBL(); VC_ASSUME(lcell[j][k] > -1e3 && lcell[j][k] < 1e3); model->loadings->data[j][k] = lcell[j][k]; }
  mv_calls = 0; prep_calls2 = 0;
  PCAScorePredictor(mx, model, VC_REQ, ps);
  size_t npc = VC_REQ > VC_NPC ? VC_NPC : VC_REQ;
  VC_CHECK("ScorePredictor: scores are objects x min(requested, stored) components", ps->row == VC_R && ps->col == npc);
  VC_CHECK("ScorePredictor: the data are transformed once with the STORED averages and scalings (option -1)", prep_calls2 == 1 && prep_type2 == -1 &&
           prep_avg == model->colaverage && prep_sc == model->colscaling);
  VC_CHECK("ScorePredictor: one projection per component", mv_calls == npc);
  for(size_t k = 0; k < npc; k++)
    for(size_t i = 0; i < VC_R; i++)
      VC_CHECK("ScorePredictor: column k of the result holds component k's scores", ps->data[i][k] == (double)(k + 1));
  VC_REACH();
}
#endif

#ifdef VC_UNIT_PRED
#include "pca.h"
#ifndef VC_GI
#define VC_GI 0
#endif
#ifndef VC_GJ
#define VC_GJ 0
#endif
#ifndef VC_SCALED
#define VC_SCALED 1
#endif
void h_PCAIndVarPredictor(void)
{
  /* t: VC_R x VC_NPC scores, p: VC_C x VC_NPC loadings; request VC_REQ components */
  matrix *t, *p, *out;
  dvector *avg, *sc;
  NewMatrix(&t, VC_R, VC_NPC); NewMatrix(&p, VC_C, VC_NPC); initMatrix(&out);
  initDVector(&avg); initDVector(&sc);
  for(size_t i = 0; i < VC_R; i++) for(size_t k = 0; k < VC_NPC; k++) t->data[i][k] = IN_CELL();
  for(size_t j = 0; j < VC_C; j++) for(size_t k = 0; k < VC_NPC; k++) p->data[j][k] = IN_CELL();
  if(VC_SCALED >= 1) for(size_t j = 0; j < VC_C; j++) DVectorAppend(avg, IN_CELL());
  if(VC_SCALED >= 2) for(size_t j = 0; j < VC_C; j++) DVectorAppend(sc, IN_CELL());
  PCAIndVarPredictor(t, p, avg, sc, VC_REQ, out);
  size_t npc = VC_REQ > VC_NPC ? VC_NPC : VC_REQ;
  VC_CHECK("IndVarPredictor: output is objects x variables", out->row == VC_R && out->col == VC_C);
  if(VC_GI < VC_R && VC_GJ < VC_C) {
    double acc = 0;
    for(size_t k = 0; k < npc; k++) acc += t->data[VC_GI][k] * p->data[VC_GJ][k];
    if(VC_SCALED >= 2) acc *= sc->data[VC_GJ];
    if(VC_SCALED >= 1) acc += avg->data[VC_GJ];
    VC_CHECK("IndVarPredictor: cell = (sum over the requested components of score*loading) * stored scale + stored mean", out->data[VC_GI][VC_GJ] == acc);
  }
  VC_REACH();
}
#endif
