/* C03: LVCalc (one NIPALS latent variable) on its real body (pls.c included), bounded concrete shapes.  The product kernels
 * are recording oracles that CHECK their operands: conforming sizes and - because the single-threaded kernels accumulate -
 * a zeroed output vector at every call.  Norms are 1 and the convergence measure signals convergence at the first test.
 * Decided: operand wiring and zero-reset of every product, the start response column is the (first) one with the largest
 * variance, all seven outputs keep their sizes, X and Y keep their shapes.  This is the enforce-run of the contract
 * that stands in for LVCalc when PLS() is checked (stubs/pls_stubs.c). */
#include "vc.h"
#include "matrix.h"
#include "vector.h"
#include "tensor.h"
#ifndef VC_N
#define VC_N 2
#endif
#ifndef VC_XC
#define VC_XC 2
#endif
#ifndef VC_NY
#define VC_NY 2
#endif
#define GMAX 8
static size_t vm_calls, mv_calls;
static double yvar[GMAX], ycell[GMAX][GMAX], first_u[GMAX];
static void vc_vm(matrix *m, dvector *v, dvector *p)     /* p = v' M */
{
  if(vm_calls == 0)
    for(size_t i = 0; i < v->size && i < GMAX; i++) first_u[i] = v->data[i];
  vm_calls++;
  VC_CHECK("v'M kernel operands conform: v has one entry per row, p one per column", v->size == m->row && p->size == m->col);
  for(size_t j = 0; j < p->size; j++) {
    VC_CHECK("the accumulating v'M kernel is handed a zeroed output", p->data[j] == 0.0);
    p->data[j] = 1.0;
  }
}
static void vc_mv(matrix *m, dvector *v, dvector *p)     /* p = M v */
{
  mv_calls++;
  VC_CHECK("Mv kernel operands conform: v has one entry per column, p one per row", v->size == m->col && p->size == m->row);
  for(size_t i = 0; i < p->size; i++) {
    VC_CHECK("the accumulating Mv kernel is handed a zeroed output", p->data[i] == 0.0);
    p->data[i] = 1.0;
  }
}
static double vc_dot(dvector *a, dvector *b) { VC_CHECK("dot product operands have equal sizes", a->size == b->size); return 1.0; }
static void vc_norm(dvector *a, dvector *b) { (void)a; (void)b; }
static double vc_module(dvector *a) { (void)a; return 1.0; }
static double vc_conv(dvector *a, dvector *b) { (void)a; (void)b; return 0.0; }
static void vc_colvar(matrix *m, dvector *v)
{
  for(size_t j = 0; j < m->col; j++) {
    double x = VC_IN_DBL(); VC_ASSUME(x >= 0.0 && x < 1e6);
    if(j < GMAX) yvar[j] = x;
    DVectorAppend(v, x);
  }
}
#define DVectorMatrixDotProduct vc_vm
#define MatrixDVectorDotProduct vc_mv
#define DVectorDVectorDotProd vc_dot
#define DVectNorm vc_norm
#define DvectorModule vc_module
#define calcConvergence vc_conv
#define MatrixColVar vc_colvar
#include "pls.c"

void h_LVCalc_contract(void)
{
  matrix *x, *y;
  dvector *t, *u, *p, *q, *w;
  double b;
  NewMatrix(&x, VC_N, VC_XC); NewMatrix(&y, VC_N, VC_NY);
  for(size_t i = 0; i < VC_N; i++)
    for(size_t j = 0; j < VC_NY; j++) { ycell[i][j] = VC_IN_DBL(); VC_ASSUME(ycell[i][j] > -1e3 && ycell[i][j] < 1e3); y->data[i][j] = ycell[i][j]; }
  NewDVector(&t, VC_N); NewDVector(&u, VC_N); NewDVector(&p, VC_XC); NewDVector(&q, VC_NY); NewDVector(&w, VC_XC);
  vm_calls = mv_calls = 0;
  LVCalc(x, y, t, u, p, q, w, &b);
  VC_CHECK("LVCalc: the seven outputs keep their sizes", t->size == VC_N && u->size == VC_N && p->size == VC_XC && q->size == VC_NY && w->size == VC_XC);
  VC_CHECK("LVCalc: X and Y keep their shapes", x->row == VC_N && x->col == VC_XC && y->row == VC_N && y->col == VC_NY);
  if(VC_NY > 1) {
    size_t best = 0;
    for(size_t j = 1; j < VC_NY; j++) if(yvar[j] > yvar[best]) best = j;
    for(size_t i = 0; i < VC_N; i++)
      VC_CHECK("LVCalc: the iteration starts from the response column with the largest variance", VC_SAME(first_u[i], ycell[i][best]));
  } else
    for(size_t i = 0; i < VC_N; i++)
      VC_CHECK("LVCalc: with one response the iteration starts from that response", VC_SAME(first_u[i], ycell[i][0]));
  VC_REACH();
}
