/* C03 / C05: structural identities of PLS() on the real body, bounded concrete shape
 * (VC_N objects, VC_XC predictors, VC_NY responses, VC_NLV latent variables), all values symbolic.
 * Under CBMC the callees MatrixPreprocess / LVCalc / calcVarExpressed (and PLSYPredictor in the quick tier)
 * are replaced by contract-derived stubs (stubs/pls_stubs.c); natively the real callees run. */
#include "vc.h"
#include "pls.h"
#include "matrix.h"
#include "vector.h"
#include "numeric.h"
#ifndef VC_N
#define VC_N 2
#endif
#ifndef VC_XC
#define VC_XC 2
#endif
#ifndef VC_NY
#define VC_NY 2
#endif
#ifndef VC_NLV
#define VC_NLV 2
#endif
#define GMAX 8
#ifdef VC_CBMC
extern size_t vc_lv_calls, vc_yp_calls, vc_yp_nlv[GMAX];
extern double vc_lv_t[GMAX][GMAX], vc_lv_u[GMAX][GMAX], vc_lv_p[GMAX][GMAX], vc_lv_w[GMAX][GMAX], vc_lv_q[GMAX][GMAX], vc_lv_b[GMAX];
extern double vc_yp_val[GMAX][GMAX][GMAX];
#endif

static double ycell[GMAX][GMAX];

static matrix *in_matrix(size_t r, size_t c, int rec)
{
  matrix *m;
  NewMatrix(&m, r, c);
  for(size_t i = 0; i < r; i++)
    for(size_t j = 0; j < c; j++) {
      double v = VC_IN_DBL();
      /* finite, non-missing data (the property quantifies over finite matrices) */
      VC_ASSUME(v == v && v - v == v - v && !FLOAT_EQ(v, MISSING, 1.0));
#ifdef VC_ZERO_Y
      /* instance (A): all observed responses are 0, so residual must equal the recalculated value bit for bit */
      if(rec)
        VC_ASSUME(v == 0.0);
#endif
      VC_NATIVE_ONLY(if(v > 1e6 || v < -1e6) v = (double)((long)i * 3 + (long)j * 7 % 11) + 0.5;)
      m->data[i][j] = v;
      if(rec)
        ycell[i][j] = v;
    }
  return m;
}

void h_PLS_structure(void)
{
  matrix *mx = in_matrix(VC_N, VC_XC, 0);
  matrix *my = in_matrix(VC_N, VC_NY, 1);
  int xs = VC_IN_INT(), ys = VC_IN_INT();
  VC_ASSUME(xs >= -1 && xs <= 5 && ys >= -1 && ys <= 5);
  PLSMODEL *model;
  NewPLSModel(&model);
  PLS(mx, my, VC_NLV, xs, ys, model, NULL);
  size_t nlv = VC_NLV > VC_XC ? VC_XC : VC_NLV;

  VC_CHECK("PLS.shape.scores", model->xscores->row == VC_N && model->xscores->col == nlv &&
                                 model->yscores->row == VC_N && model->yscores->col == nlv);
  VC_CHECK("PLS.shape.loadings", model->xloadings->row == VC_XC && model->xloadings->col == nlv &&
                                   model->xweights->row == VC_XC && model->xweights->col == nlv &&
                                   model->yloadings->row == VC_NY && model->yloadings->col == nlv);
  VC_CHECK("PLS.shape.b", model->b->size == nlv && model->xvarexp->size == nlv);
  VC_CHECK("PLS.shape.recalculated", model->recalculated_y->row == VC_N && model->recalculated_y->col == VC_NY * nlv);
  VC_CHECK("PLS.shape.residuals", model->recalc_residuals->row == VC_N && model->recalc_residuals->col == VC_NY * nlv);
  for(size_t i = 0; i < VC_N; i++)
    for(size_t a = 0; a < nlv; a++)
      for(size_t j = 0; j < VC_NY; j++) {
        double rec = model->recalculated_y->data[i][VC_NY * a + j];
        double res = model->recalc_residuals->data[i][VC_NY * a + j];
        /* stored residual = recalculated - matching observed response, column by column, for every response and every a */
        VC_CHECK("PLS.residual = recalculated - observed (matching response column)", VC_SAME(res, rec - ycell[i][j]));
      }
  for(size_t i = 0; i < VC_N; i++)
    for(size_t j = 0; j < VC_NY; j++)
      VC_CHECK("PLS.input-y-unchanged", VC_SAME(my->data[i][j], ycell[i][j]));
#ifdef VC_CBMC
  VC_CHECK("PLS.one LVCalc per latent variable", vc_lv_calls == nlv);
  for(size_t pc = 0; pc < nlv; pc++) {
    for(size_t i = 0; i < VC_N; i++) {
      VC_CHECK("PLS.store xscores[:,pc] = t of component pc", VC_SAME(model->xscores->data[i][pc], vc_lv_t[pc][i]));
      VC_CHECK("PLS.store yscores[:,pc] = u of component pc", VC_SAME(model->yscores->data[i][pc], vc_lv_u[pc][i]));
    }
    for(size_t i = 0; i < VC_XC; i++) {
      VC_CHECK("PLS.store xloadings[:,pc] = p of component pc", VC_SAME(model->xloadings->data[i][pc], vc_lv_p[pc][i]));
      VC_CHECK("PLS.store xweights[:,pc] = w of component pc", VC_SAME(model->xweights->data[i][pc], vc_lv_w[pc][i]));
    }
    for(size_t i = 0; i < VC_NY; i++)
      VC_CHECK("PLS.store yloadings[:,pc] = q of component pc", VC_SAME(model->yloadings->data[i][pc], vc_lv_q[pc][i]));
    VC_CHECK("PLS.store b[pc] = regression coefficient of component pc", VC_SAME(model->b->data[pc], vc_lv_b[pc]));
  }
#ifdef VC_STUB_YPRED
  VC_CHECK("PLS.one prediction per latent-variable count", vc_yp_calls == nlv);
  for(size_t a = 0; a < nlv; a++) {
    VC_CHECK("PLS.recalculated block a uses a+1 latent variables", vc_yp_nlv[a] == a + 1);
    for(size_t i = 0; i < VC_N; i++)
      for(size_t j = 0; j < VC_NY; j++)
        VC_CHECK("PLS.recalculated_y is LV-major: column ny*a+j = response j with a+1 LVs",
                 VC_SAME(model->recalculated_y->data[i][VC_NY * a + j], vc_yp_val[a][i][j]));
  }
#endif
#endif
  VC_REACH();
}

#ifdef VC_UNIT_ALLLV
/* PLSYPredictorAllLV on its real body; PLSScorePredictor and PLSYPredictor enter by contract (recording stubs):
 * the output is objects x ny*nlv, block lv (columns ny*lv .. ny*lv+ny-1) is the prediction with lv+1 latent variables */
#ifdef VC_CBMC
extern size_t vc_sp_calls, vc_sp_nlv;
#define GH(c) (c)
#else
/* natively the real predictors run: only the shape obligations are meaningful */
static size_t vc_sp_calls, vc_sp_nlv, vc_yp_calls, vc_yp_nlv[GMAX];
static double vc_yp_val[GMAX][GMAX][GMAX];
#define GH(c) (1)
#endif
void h_PLSYPredictorAllLV(void)
{
  matrix *mx = in_matrix(VC_N, VC_XC, 0), *y;
  PLSMODEL *model;
  NewPLSModel(&model);
  DVectorResize(model->b, VC_NLV);
  ResizeMatrix(model->yloadings, VC_NY, VC_NLV);
  initMatrix(&y);
  PLSYPredictorAllLV(mx, model, NULL, y);
  VC_CHECK("AllLV: output is objects x ny*nlv", y->row == VC_N && y->col == (size_t)VC_NY * VC_NLV);
  VC_CHECK("AllLV: scores are predicted once with all stored latent variables", GH(vc_sp_calls == 1 && vc_sp_nlv == VC_NLV));
  VC_CHECK("AllLV: one response prediction per latent-variable count", GH(vc_yp_calls == VC_NLV));
  for(size_t lv = 0; lv < VC_NLV; lv++) {
    VC_CHECK("AllLV: block lv is predicted with lv+1 latent variables", GH(vc_yp_nlv[lv] == lv + 1));
    for(size_t i = 0; i < VC_N; i++)
      for(size_t j = 0; j < VC_NY; j++)
        VC_CHECK("AllLV: column ny*lv + j holds response j predicted with lv+1 latent variables", GH(VC_SAME(y->data[i][VC_NY * lv + j], vc_yp_val[lv][i][j])));
  }
  VC_REACH();
}
#endif
