/* C03: PLSScorePredictor and PLSYPredictor on their real bodies (pls.c included), bounded shapes.  The preprocessing and the
 * accumulating product kernel are recording oracles.  Decided: the stored x averages/scalings are applied (option -1),
 * component pc is projected on column pc of the stored weights into a zeroed score vector, its scores are stored in
 * column pc, shape objects x min(requested, stored) components; PLSYPredictor's output is objects x responses with the
 * latent-variable count clamped to the scores given. */
#include "vc.h"
#include "matrix.h"
#include "vector.h"
#include "tensor.h"
#ifndef VC_N
#define VC_N 2
#endif
#ifndef VC_XC
#define VC_XC 2
#endif
#ifndef VC_NLV
#define VC_NLV 2   /* stored */
#endif
#ifndef VC_REQ
#define VC_REQ 2   /* requested */
#endif
#ifndef VC_NY
#define VC_NY 2
#endif
#define GMAX 8
static size_t mv_calls, prep_calls;
static int prep_type;
static dvector *prep_avg, *prep_sc;
static double wcell[GMAX][GMAX];
static void vc_prep(matrix *o, int type, dvector *avg, dvector *sc, matrix *tr)
{
  prep_calls++; prep_type = type; prep_avg = avg; prep_sc = sc;
  VC_CHECK("preprocessing output has the shape of the input", tr->row == o->row && tr->col == o->col);
}
static void vc_mv(matrix *X, dvector *w, dvector *t)
{
  size_t c = mv_calls++;
  VC_CHECK("score kernel operands conform", w->size == X->col && t->size == X->row);
  for(size_t i = 0; i < t->size; i++)
    VC_CHECK("the accumulating product kernel is handed a zeroed score vector for every component", t->data[i] == 0.0);
  for(size_t j = 0; j < w->size && j < GMAX; j++)
    VC_CHECK("component pc is projected on column pc of the stored weights", c >= GMAX || VC_SAME(w->data[j], wcell[j][c]));
  for(size_t i = 0; i < t->size; i++) t->data[i] = (double)(c + 1);
}
#define MatrixPreprocess vc_prep
#define MatrixDVectorDotProduct vc_mv
#include "pls.c"

void h_PLSScorePredictor(void)
{
  matrix *mx, *xs;
  PLSMODEL *model;
  NewMatrix(&mx, VC_N, VC_XC); initMatrix(&xs);
  NewPLSModel(&model);
  ResizeMatrix(model->xweights, VC_XC, VC_NLV);
  ResizeMatrix(model->xloadings, VC_XC, VC_NLV);
  for(size_t j = 0; j < VC_XC; j++) for(size_t k = 0; k < VC_NLV; k++) { wcell[j][k] = VC_IN_DBL(); VC_ASSUME(wcell[j][k] > -1e3 && wcell[j][k] < 1e3); model->xweights->data[j][k] = wcell[j][k]; }
  mv_calls = prep_calls = 0;
  PLSScorePredictor(mx, model, VC_REQ, xs);
  size_t nlv = VC_REQ > VC_NLV ? VC_NLV : VC_REQ;
  VC_CHECK("ScorePredictor: scores are objects x min(requested, stored) latent variables", xs->row == VC_N && xs->col == nlv);
  VC_CHECK("ScorePredictor: the data are transformed once with the STORED x averages and scalings (option -1)", prep_calls == 1 && prep_type == -1 &&
           prep_avg == model->xcolaverage && prep_sc == model->xcolscaling);
  VC_CHECK("ScorePredictor: one projection per latent variable", mv_calls == nlv);
  for(size_t k = 0; k < nlv; k++)
    for(size_t i = 0; i < VC_N; i++)
      VC_CHECK("ScorePredictor: column k of the result holds latent variable k's scores", xs->data[i][k] == (double)(k + 1));
  VC_REACH();
}

void h_PLSYPredictor_shape(void)
{
  matrix *ts, *y;
  PLSMODEL *model;
  NewMatrix(&ts, VC_N, VC_NLV); initMatrix(&y);
  NewPLSModel(&model);
  ResizeMatrix(model->yloadings, VC_NY, VC_NLV);
  DVectorResize(model->b, VC_NLV);
  DVectorResize(model->ycolaverage, VC_NY);
  DVectorResize(model->ycolscaling, VC_NY);
  PLSYPredictor(ts, model, VC_REQ, y);
  VC_CHECK("YPredictor: output is objects x responses, whatever latent-variable count is requested (clamped to the scores given)", y->row == VC_N && y->col == VC_NY);
  VC_REACH();
}

/* PLSYPredictor values on exact instances (integer cells 0..3: every product and sum is exactly representable, so the
 * obligation does not depend on the evaluation order): prediction[i][j] = (sum over the first min(requested, available)
 * latent variables of b[lv] * score[i][lv] * yloading[j][lv]) * stored y scaling[j] + stored y average[j]. */
#ifndef VC_SCALED
#define VC_SCALED 1
#endif
static double small_cell(void)
{
  uint64_t v = vc_in_u64();
  VC_ASSUME(v <= 3);
  return (double)v;
}
void h_PLSYPredictor_values(void)
{
  matrix *ts, *y;
  PLSMODEL *model;
  double t[4][4], q[4][4], b[4], av[4], sc[4];
  NewMatrix(&ts, VC_N, VC_NLV); initMatrix(&y);
  NewPLSModel(&model);
  ResizeMatrix(model->yloadings, VC_NY, VC_NLV);
  DVectorResize(model->b, VC_NLV);
  for(size_t i = 0; i < VC_N; i++)
    for(size_t a = 0; a < VC_NLV; a++)
      t[i][a] = ts->data[i][a] = small_cell();
  for(size_t j = 0; j < VC_NY; j++)
    for(size_t a = 0; a < VC_NLV; a++)
      q[j][a] = model->yloadings->data[j][a] = small_cell();
  for(size_t a = 0; a < VC_NLV; a++)
    b[a] = model->b->data[a] = small_cell();
  if(VC_SCALED) {
    DVectorResize(model->ycolaverage, VC_NY);
    DVectorResize(model->ycolscaling, VC_NY);
    for(size_t j = 0; j < VC_NY; j++) {
      av[j] = model->ycolaverage->data[j] = small_cell();
      sc[j] = model->ycolscaling->data[j] = small_cell();
    }
  }
  PLSYPredictor(ts, model, VC_REQ, y);
  size_t used = VC_REQ < VC_NLV ? VC_REQ : VC_NLV;
  VC_CHECK("YPredictor: output is objects x responses", y->row == VC_N && y->col == VC_NY);
  for(size_t i = 0; i < VC_N; i++)
    for(size_t j = 0; j < VC_NY; j++) {
      double s = 0;
      for(size_t a = 0; a < used; a++)
        s += b[a] * t[i][a] * q[j][a];
      if(VC_SCALED)
        s = s * sc[j] + av[j];
      VC_CHECK("YPredictor: prediction = (sum_lv b*score*yloading over the latent variables used) * y scaling + y average", y->data[i][j] == s);
    }
  VC_REACH();
}
