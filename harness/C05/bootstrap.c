/* C05/C06: BootstrapRandomGroupsCV driver on its real body, bounded concrete configuration.  Workers are intercepted by a
 * monitor playing their contract (every object predicted exactly once per iteration: counter 1, arbitrary recorded
 * prediction).  Decided: the number of workers started is the iteration count rounded up to a multiple of the thread
 * count; worker g is seeded with base + g where g is its global index (so the set of seeds does not depend on the
 * thread count when it divides the iteration count); every worker gets its own zeroed output objects and the shared
 * inputs; the output tables have one row per object; the caller's generator state is not touched by the driver. */
#include "vc.h"
#include <pthread.h>
#ifndef VC_NOBJ
#define VC_NOBJ 3
#endif
#ifndef VC_XC
#define VC_XC 2
#endif
#ifndef VC_NY
#define VC_NY 1
#endif
#ifndef VC_NTH
#define VC_NTH 2
#endif
#ifndef VC_ITER
#define VC_ITER 2
#endif
#ifndef VC_GROUP
#define VC_GROUP 2
#endif
#define GMAX 16
static void mon_create(void *(*fn)(void *), void *arg);
static int vc_pthread_create(pthread_t *t, const pthread_attr_t *a, void *(*fn)(void *), void *arg) { (void)t; (void)a; mon_create(fn, arg); return 0; }
static int vc_pthread_join(pthread_t t, void **r) { (void)t; (void)r; return 0; }
#define pthread_create vc_pthread_create
#define pthread_join vc_pthread_join
#include "modelvalidation.c"

static matrix *MX, *MY;
static size_t workers;
static unsigned seeds[GMAX];
static void *outs[GMAX];
static void mon_create(void *(*fn)(void *), void *arg_)
{
  rgcv_th_arg *a = (rgcv_th_arg *)arg_;
  size_t g = workers++;
  VC_CHECK("bootstrap worker entry matches the learner", fn == MLRRandomGroupCVModel);
  VC_CHECK("worker shares the caller's data (read-only inputs)", a->mx == MX && a->my == MY && a->group == VC_GROUP);
  VC_CHECK("worker output tables have one row per object and start at zero", a->predicted_y->row == VC_NOBJ && a->predicted_y->col == VC_NY &&
           a->predictioncounter->size == VC_NOBJ);
  if(g < GMAX) {
    seeds[g] = a->srand_init;
    outs[g] = a->predicted_y;
    for(size_t k = 0; k < g; k++)
      VC_CHECK("workers of one round never share an output object", workers - 1 - k >= VC_NTH || outs[k] != outs[g] || k / VC_NTH != g / VC_NTH);
  }
  for(size_t i = 0; i < VC_NOBJ; i++) {
    VC_CHECK("worker output starts at zero", a->predictioncounter->data[i] == 0 && a->predicted_y->data[i][0] == 0.0);
    a->predictioncounter->data[i] = 1;          /* contract: every object predicted once in this iteration */
    for(size_t c = 0; c < VC_NY; c++)
      a->predicted_y->data[i][c] = 0.0;
  }
}

void h_Bootstrap(void)
{
  NewMatrix(&MX, VC_NOBJ, VC_XC); NewMatrix(&MY, VC_NOBJ, VC_NY);
  for(size_t i = 0; i < VC_NOBJ; i++) {
    for(size_t j = 0; j < VC_XC; j++) MX->data[i][j] = VC_IN_DBL();
    for(size_t j = 0; j < VC_NY; j++) { double v = VC_IN_DBL(); VC_ASSUME(v > -1e3 && v < 1e3); MY->data[i][j] = v; }
  }
  MODELINPUT in = initModelInput();
  in.mx = MX; in.my = MY;
  matrix *py, *pr;
  initMatrix(&py); initMatrix(&pr);
  workers = 0;
  BootstrapRandomGroupsCV(&in, VC_GROUP, VC_ITER, _MLR_, py, pr, VC_NTH, NULL, 0);
  size_t rounds = (VC_ITER + VC_NTH - 1) / VC_NTH;
  VC_CHECK("bootstrap: workers started = iterations rounded up to a multiple of the thread count (= iterations when the count divides)", workers == rounds * VC_NTH);
  unsigned base = (unsigned)(VC_GROUP + VC_NOBJ + VC_NY + VC_ITER);
  for(size_t g = 0; g < workers && g < GMAX; g++)
    VC_CHECK("bootstrap: worker g is seeded with base + g (a function of its global index only, hence independent of the thread count)", seeds[g] == base + g);
  VC_CHECK("bootstrap: prediction and residual tables have one row per object", py->row == VC_NOBJ && py->col == VC_NY && pr->row == VC_NOBJ && pr->col == VC_NY);
  for(size_t i = 0; i < VC_NOBJ; i++)
    for(size_t c = 0; c < VC_NY; c++) {
      VC_CHECK("bootstrap: averaged prediction of all-zero worker predictions is zero (sum / count, count > 0)", py->data[i][c] == 0.0);
      VC_CHECK("bootstrap: residual = prediction - matching observed response", VC_SAME(pr->data[i][c], 0.0 - MY->data[i][c]));
    }
  VC_REACH();
}
