/* C05: cross-validation data flow on the real bodies of modelvalidation.c (included), bounded concrete shapes,
 * all data values symbolic.  Learners are not run: pthread_create is intercepted by a monitor that plays the
 * learner's CONTRACT (reads its training/test operands, writes an arbitrary recorded prediction into its own output)
 * and checks, at the moment the worker is started, that the training operands are exactly the rows of the data other
 * than the held-out object(s) and the test operand exactly the held-out row(s).  Since the learner only sees these
 * operands, the prediction cannot depend on the held-out object or its response: out-of-sample by data flow.
 * Column 0 of mx carries the object number (an identifying tag chosen by the harness). */
#include "vc.h"
#include <pthread.h>
#ifndef VC_NOBJ
#define VC_NOBJ 3
#endif
#ifndef VC_XC
#define VC_XC 2
#endif
#ifndef VC_NY
#define VC_NY 2
#endif
#ifndef VC_NLV
#define VC_NLV 0 /* 0 = MLR */
#endif
#ifndef VC_NTH
#define VC_NTH 2
#endif
#define GMAX 8
static void mon_create(void *(*fn)(void *), void *arg);
static int vc_pthread_create(pthread_t *t, const pthread_attr_t *a, void *(*fn)(void *), void *arg)
{
  (void)t; (void)a;
  mon_create(fn, arg);
  return 0;
}
static int vc_pthread_join(pthread_t t, void **r) { (void)t; (void)r; return 0; }
#define pthread_create vc_pthread_create
#define pthread_join vc_pthread_join
#include "modelvalidation.c"

static matrix *MX, *MY;
static double xcell[GMAX][GMAX], ycell[GMAX][GMAX], pred[GMAX][GMAX];
static int seen[GMAX];
static size_t workers;

static double oracle(void)
{
  double v = VC_IN_DBL();
#ifdef VC_ZERO_PRED
  VC_ASSUME(v == 0.0);
  VC_NATIVE_ONLY(v = 0.0;)
#else
  VC_ASSUME(v > -1e6 && v < 1e6);
#endif
  return v;
}

#ifdef VC_LAB
static const size_t LAB[] = VC_LAB;      /* user-supplied fold labels (k-fold), one per object */
#endif
/* learner contract + checks on the operands the worker is started with (leave-one-out and k-fold share the worker type) */
static void mon_create(void *(*fn)(void *), void *arg_)
{
  loocv_th_arg *a = (loocv_th_arg *)arg_;
  workers++;
  VC_CHECK("worker entry matches the learner", fn == (VC_NLV ? PLSLOOModel_ : MLRLOOModel_));
  size_t ntest = a->x_test->row;
  VC_CHECK("operand shapes: test and train parts together hold every object once", a->y_test->row == ntest && a->x_train->row == VC_NOBJ - ntest &&
           a->y_train->row == VC_NOBJ - ntest && (ntest == 0 || (a->x_test->col == VC_XC && a->y_test->col == VC_NY)) &&
           (ntest == VC_NOBJ || (a->x_train->col == VC_XC && a->y_train->col == VC_NY)));
#ifndef VC_LAB
  VC_CHECK("leave-one-out: exactly one object is held out", ntest == 1);
#endif
  int intest[GMAX] = {0}, intrain[GMAX] = {0};
  size_t ids[GMAX];
  for(size_t r = 0; r < ntest && r < GMAX; r++) {
    size_t id = (size_t)a->x_test->data[r][0];
    ids[r] = id;
    VC_CHECK("held-out object is a valid object", id < VC_NOBJ);
    if(id >= VC_NOBJ)
      return;
    VC_CHECK("every object is held out at most once", !seen[id]);
    seen[id] = 1;
    intest[id] = 1;
    for(size_t k = 0; k < VC_XC; k++)
      VC_CHECK("test x row is the held-out object's row", VC_SAME(a->x_test->data[r][k], xcell[id][k]));
    for(size_t k = 0; k < VC_NY; k++)
      VC_CHECK("test y row is the held-out object's response", VC_SAME(a->y_test->data[r][k], ycell[id][k]));
#ifdef VC_LAB
    VC_CHECK("k-fold: the held-out objects all carry the same user label", LAB[id] == LAB[ids[0]]);
#endif
  }
#ifdef VC_LAB
  if(ntest > 0) {
    size_t same = 0;
    for(size_t i = 0; i < VC_NOBJ; i++) if(LAB[i] == LAB[ids[0]]) same++;
    VC_CHECK("k-fold: every object carrying that label is held out together", same == ntest);
  }
#endif
  for(size_t l = 0; l < a->x_train->row && l < GMAX; l++) {
    size_t src = (size_t)a->x_train->data[l][0];
    VC_CHECK("training row is a valid object", src < VC_NOBJ);
    if(src >= VC_NOBJ)
      return;
    VC_CHECK("training rows never contain a held-out object", !intest[src]);
    VC_CHECK("training rows contain each other object once", !intrain[src]);
    intrain[src] = 1;
    for(size_t k = 0; k < VC_XC; k++)
      VC_CHECK("training x rows are exactly the other objects (the held-out one is absent)", VC_SAME(a->x_train->data[l][k], xcell[src][k]));
    for(size_t k = 0; k < VC_NY; k++)
      VC_CHECK("training y rows are exactly the other objects' responses", VC_SAME(a->y_train->data[l][k], ycell[src][k]));
  }
  /* learner contract: writes only its own prediction matrix, one row per held-out object */
  size_t pc = VC_NLV ? (size_t)VC_NY * (VC_NLV > VC_XC ? VC_XC : VC_NLV) : VC_NY;
  if(a->y_test_predicted->row != ntest || a->y_test_predicted->col != pc)
    ResizeMatrix(a->y_test_predicted, ntest, pc);
  for(size_t r = 0; r < ntest && r < GMAX; r++)
    for(size_t c = 0; c < pc && c < GMAX; c++) {
      pred[ids[r]][c] = oracle();
      a->y_test_predicted->data[r][c] = pred[ids[r]][c];
    }
}

static matrix *in_matrix(size_t r, size_t c, double rec[GMAX][GMAX], int tag, int zero)
{
  matrix *m;
  NewMatrix(&m, r, c);
  for(size_t i = 0; i < r; i++)
    for(size_t j = 0; j < c; j++) {
      double v = VC_IN_DBL();
      VC_ASSUME(v > -1e6 && v < 1e6);
      if(tag && j == 0)
        v = (double)i;
      if(zero) {
        VC_ASSUME(v == 0.0);
        VC_NATIVE_ONLY(v = 0.0;)
      }
      m->data[i][j] = v;
      rec[i][j] = v;
    }
  return m;
}

#ifdef VC_LAB
void h_KFoldCV(void)
{
#ifdef VC_ZERO_Y
  int zy = 1;
#else
  int zy = 0;
#endif
  MX = in_matrix(VC_NOBJ, VC_XC, xcell, 1, 0);
  MY = in_matrix(VC_NOBJ, VC_NY, ycell, 0, zy);
  seen[0] = seen[1] = seen[2] = seen[3] = seen[4] = seen[5] = seen[6] = seen[7] = 0;
  workers = 0;
  uivector *groups;
  NewUIVector(&groups, VC_NOBJ);
  size_t maxlab = 0;
  for(size_t i = 0; i < VC_NOBJ; i++) { groups->data[i] = LAB[i]; if(LAB[i] > maxlab) maxlab = LAB[i]; }
  MODELINPUT in = initModelInput();
  in.mx = MX; in.my = MY; in.nlv = VC_NLV; in.xautoscaling = 1; in.yautoscaling = 0;
  matrix *py, *pr;
  initMatrix(&py); initMatrix(&pr);
  KFoldCV(&in, groups, VC_NLV ? _PLS_ : _MLR_, py, pr, VC_NTH, NULL, 0);
  size_t pc = VC_NLV ? (size_t)VC_NY * (VC_NLV > VC_XC ? VC_XC : VC_NLV) : VC_NY;
  VC_CHECK("k-fold: one model per label value up to the largest label (empty folds included)", workers == maxlab + 1);
  VC_CHECK("k-fold: prediction table is n x ny*nlv", py->row == VC_NOBJ && py->col == pc && pr->row == VC_NOBJ && pr->col == pc);
  for(size_t i = 0; i < VC_NOBJ; i++) {
    VC_CHECK("k-fold: every object is held out exactly once (the folds are a partition)", seen[i] == 1);
    for(size_t c = 0; c < pc; c++) {
      VC_CHECK("k-fold: predicted_y[i] is the prediction of the model that did not see object i", VC_SAME(py->data[i][c], pred[i][c]));
      VC_CHECK("k-fold: residual = prediction - matching observed response column", VC_SAME(pr->data[i][c], py->data[i][c] - ycell[i][c % VC_NY]));
    }
  }
  VC_REACH();
}
#endif

void h_LeaveOneOut(void)
{
#ifdef VC_ZERO_Y
  int zy = 1;
#else
  int zy = 0;
#endif
  MX = in_matrix(VC_NOBJ, VC_XC, xcell, 1, 0);
  MY = in_matrix(VC_NOBJ, VC_NY, ycell, 0, zy);
  seen[0] = seen[1] = seen[2] = seen[3] = seen[4] = seen[5] = seen[6] = seen[7] = 0;
  workers = 0;
  MODELINPUT in = initModelInput();
  in.mx = MX; in.my = MY; in.nlv = VC_NLV; in.xautoscaling = 1; in.yautoscaling = 0;
  matrix *py, *pr;
  initMatrix(&py); initMatrix(&pr);
  LeaveOneOut(&in, VC_NLV ? _PLS_ : _MLR_, py, pr, VC_NTH, NULL, 0);
  size_t pc = VC_NLV ? (size_t)VC_NY * (VC_NLV > VC_XC ? VC_XC : VC_NLV) : VC_NY;
  VC_CHECK("LOO: one model per object", workers == VC_NOBJ);
  VC_CHECK("LOO: prediction table is n x ny*nlv", py->row == VC_NOBJ && py->col == pc && pr->row == VC_NOBJ && pr->col == pc);
  for(size_t i = 0; i < VC_NOBJ; i++) {
    VC_CHECK("LOO: every object is held out exactly once", seen[i] == 1);
    for(size_t c = 0; c < pc; c++) {
      VC_CHECK("LOO: predicted_y[i] is the prediction of the model that did not see object i", VC_SAME(py->data[i][c], pred[i][c]));
      VC_CHECK("LOO: residual = prediction - matching observed response column", VC_SAME(pr->data[i][c], py->data[i][c] - ycell[i][c % VC_NY]));
    }
  }
  for(size_t i = 0; i < VC_NOBJ; i++) {
    for(size_t k = 0; k < VC_XC; k++)
      VC_CHECK("LOO: input x unchanged", VC_SAME(MX->data[i][k], xcell[i][k]));
    for(size_t k = 0; k < VC_NY; k++)
      VC_CHECK("LOO: input y unchanged", VC_SAME(MY->data[i][k], ycell[i][k]));
  }
  VC_REACH();
}
