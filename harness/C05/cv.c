/* C05: cross-validation data flow on the real bodies of modelvalidation.c (included), bounded concrete shapes,
 * all data values symbolic.  Learners are not run: pthread_create is intercepted by a monitor that plays the
 * learner's CONTRACT (reads its training/test operands, writes an arbitrary recorded prediction into its own output)
 * and checks, at the moment the worker is started, that the training operands are exactly the rows of the data other
 * than the held-out object(s) and the test operand exactly the held-out row(s).  Since the learner only sees these
 * operands, the prediction cannot depend on the held-out object or its response: out-of-sample by data flow.
 * Column 0 of mx carries the object number (an identifying tag chosen by the harness). */
#include "vc.h"
#include <pthread.h>
#ifndef VC_NOBJ
#define VC_NOBJ 3
#endif
#ifndef VC_XC
#define VC_XC 2
#endif
#ifndef VC_NY
#define VC_NY 2
#endif
#ifndef VC_NLV
#define VC_NLV 0 /* 0 = MLR */
#endif
#ifndef VC_NTH
#define VC_NTH 2
#endif
#define GMAX 8
static void mon_create(void *(*fn)(void *), void *arg);
static int vc_pthread_create(pthread_t *t, const pthread_attr_t *a, void *(*fn)(void *), void *arg)
{
  (void)t; (void)a;
  mon_create(fn, arg);
  return 0;
}
static int vc_pthread_join(pthread_t t, void **r) { (void)t; (void)r; return 0; }
#define pthread_create vc_pthread_create
#define pthread_join vc_pthread_join
#include "modelvalidation.c"

static matrix *MX, *MY;
static double xcell[GMAX][GMAX], ycell[GMAX][GMAX], pred[GMAX][GMAX];
static int seen[GMAX];
static size_t workers;

static double oracle(void)
{
  double v = VC_IN_DBL();
#ifdef VC_ZERO_PRED
  VC_ASSUME(v == 0.0);
  VC_NATIVE_ONLY(v = 0.0;)
#else
  VC_ASSUME(v > -1e6 && v < 1e6);
#endif
  return v;
}

/* leave-one-out worker contract + checks on what it is given */
static void mon_create(void *(*fn)(void *), void *arg_)
{
  loocv_th_arg *a = (loocv_th_arg *)arg_;
  workers++;
  VC_CHECK("LOO worker entry matches the learner", fn == (VC_NLV ? PLSLOOModel_ : MLRLOOModel_));
  VC_CHECK("LOO operand shapes: train (n-1) rows, test 1 row", a->x_train->row == VC_NOBJ - 1 && a->y_train->row == VC_NOBJ - 1 &&
           a->x_test->row == 1 && a->y_test->row == 1 && a->x_train->col == VC_XC && a->y_train->col == VC_NY);
  size_t id = (size_t)a->x_test->data[0][0];
  VC_CHECK("held-out object is a valid object", id < VC_NOBJ);
  if(id >= VC_NOBJ)
    return;
  VC_CHECK("every object is held out at most once", !seen[id]);
  seen[id] = 1;
  for(size_t k = 0; k < VC_XC; k++)
    VC_CHECK("test x row is the held-out object's row", VC_SAME(a->x_test->data[0][k], xcell[id][k]));
  for(size_t k = 0; k < VC_NY; k++)
    VC_CHECK("test y row is the held-out object's response", VC_SAME(a->y_test->data[0][k], ycell[id][k]));
  for(size_t l = 0; l + 1 < VC_NOBJ; l++) {
    size_t src = l < id ? l : l + 1;
    for(size_t k = 0; k < VC_XC; k++)
      VC_CHECK("training x rows are exactly the other objects (the held-out one is absent)", VC_SAME(a->x_train->data[l][k], xcell[src][k]));
    for(size_t k = 0; k < VC_NY; k++)
      VC_CHECK("training y rows are exactly the other objects' responses", VC_SAME(a->y_train->data[l][k], ycell[src][k]));
  }
  /* learner contract: writes only its own prediction matrix */
  size_t pc = VC_NLV ? (size_t)VC_NY * (VC_NLV > VC_XC ? VC_XC : VC_NLV) : VC_NY;
  VC_CHECK("prediction buffer has ny*nlv columns", a->y_test_predicted->row == 1 && a->y_test_predicted->col == pc);
  for(size_t c = 0; c < a->y_test_predicted->col && c < GMAX; c++) {
    pred[id][c] = oracle();
    a->y_test_predicted->data[0][c] = pred[id][c];
  }
}

static matrix *in_matrix(size_t r, size_t c, double rec[GMAX][GMAX], int tag, int zero)
{
  matrix *m;
  NewMatrix(&m, r, c);
  for(size_t i = 0; i < r; i++)
    for(size_t j = 0; j < c; j++) {
      double v = VC_IN_DBL();
      VC_ASSUME(v > -1e6 && v < 1e6);
      if(tag && j == 0)
        v = (double)i;
      if(zero) {
        VC_ASSUME(v == 0.0);
        VC_NATIVE_ONLY(v = 0.0;)
      }
      m->data[i][j] = v;
      rec[i][j] = v;
    }
  return m;
}

void h_LeaveOneOut(void)
{
#ifdef VC_ZERO_Y
  int zy = 1;
#else
  int zy = 0;
#endif
  MX = in_matrix(VC_NOBJ, VC_XC, xcell, 1, 0);
  MY = in_matrix(VC_NOBJ, VC_NY, ycell, 0, zy);
  seen[0] = seen[1] = seen[2] = seen[3] = seen[4] = seen[5] = seen[6] = seen[7] = 0;
  workers = 0;
  MODELINPUT in = initModelInput();
  in.mx = MX; in.my = MY; in.nlv = VC_NLV; in.xautoscaling = 1; in.yautoscaling = 0;
  matrix *py, *pr;
  initMatrix(&py); initMatrix(&pr);
  LeaveOneOut(&in, VC_NLV ? _PLS_ : _MLR_, py, pr, VC_NTH, NULL, 0);
  size_t pc = VC_NLV ? (size_t)VC_NY * (VC_NLV > VC_XC ? VC_XC : VC_NLV) : VC_NY;
  VC_CHECK("LOO: one model per object", workers == VC_NOBJ);
  VC_CHECK("LOO: prediction table is n x ny*nlv", py->row == VC_NOBJ && py->col == pc && pr->row == VC_NOBJ && pr->col == pc);
  for(size_t i = 0; i < VC_NOBJ; i++) {
    VC_CHECK("LOO: every object is held out exactly once", seen[i] == 1);
    for(size_t c = 0; c < pc; c++) {
      VC_CHECK("LOO: predicted_y[i] is the prediction of the model that did not see object i", VC_SAME(py->data[i][c], pred[i][c]));
      VC_CHECK("LOO: residual = prediction - matching observed response column", VC_SAME(pr->data[i][c], py->data[i][c] - ycell[i][c % VC_NY]));
    }
  }
  for(size_t i = 0; i < VC_NOBJ; i++) {
    for(size_t k = 0; k < VC_XC; k++)
      VC_CHECK("LOO: input x unchanged", VC_SAME(MX->data[i][k], xcell[i][k]));
    for(size_t k = 0; k < VC_NY; k++)
      VC_CHECK("LOO: input y unchanged", VC_SAME(MY->data[i][k], ycell[i][k]));
  }
  VC_REACH();
}
