/* C05: fold construction on the real bodies: kfold_group_train_test_split (data movement, IEEE) and
 * random_kfold_group_generator (partition; the generator draws through an oracle randInt in [low,high)). */
#include "vc.h"
#include "matrix.h"
#include "vector.h"
#ifndef VC_NOBJ
#define VC_NOBJ 4
#endif
#ifndef VC_XC
#define VC_XC 1
#endif
#ifndef VC_NY
#define VC_NY 2
#endif
#ifndef VC_G
#define VC_G 2
#endif
#ifndef VC_K
#define VC_K 2
#endif
#define GMAX 8
#include "matrix.h"
static size_t draws;
static matrix *GID;      /* the table under construction (set by the harness) */
static int last_fresh = 1;
/* oracle generator: any value in [low,high); never two rejected draws in a row (termination assumption of the
 * rejection loop: the generator eventually yields an unused object), so the loop runs at most twice per cell */
static int vc_randInt(int low, int high)
{
  int r = VC_IN_INT();
  VC_CHECK("callee precondition randInt: low < high", low < high);
  VC_ASSUME(r >= low && r < high);
  int fresh = 1;
  long used = 0;
  if(GID && GID->data)
    for(size_t i = 0; i < GID->row; i++)
      for(size_t j = 0; j < GID->col; j++) {
        if(GID->data[i][j] == (double)r)
          fresh = 0;
        if(GID->data[i][j] >= 0.0)
          used++;
      }
  /* once every object is placed no fresh value exists and the loop leaves on its counter */
  VC_ASSUME(fresh || last_fresh || used >= (long)high - (long)low);
  last_fresh = fresh;
  draws++;
  return r;
}
static void vc_srand(uint32_t s) { (void)s; }
#define randInt vc_randInt
#define srand_ vc_srand
#include "modelvalidation.c"

static double xc[GMAX][GMAX], yc[GMAX][GMAX];
static matrix *in_matrix(size_t r, size_t c, double rec[GMAX][GMAX])
{
  matrix *m;
  NewMatrix(&m, r, c);
  for(size_t i = 0; i < r; i++)
    for(size_t j = 0; j < c; j++) {
      rec[i][j] = VC_IN_DBL();
      m->data[i][j] = rec[i][j];
    }
  return m;
}

void h_kfold_split(void)
{
  matrix *x = in_matrix(VC_NOBJ, VC_XC, xc), *y = in_matrix(VC_NOBJ, VC_NY, yc), *gid;
  NewMatrix(&gid, VC_G, VC_K);
  int g[GMAX][GMAX];
  size_t filled = 0, in_g = 0;
  size_t grp = VC_IN_SIZE();
  VC_ASSUME(grp < VC_G);
  /* group table: layout VC_LAYOUT of the objects over the VC_G x VC_K cells (concrete, enumerated by the orchestrator):
   * 0 = row-major order, 1 = reversed order, 2 = column-major order with the first cell left empty when there is room;
   * unused cells hold -1; objects beyond the table are simply not assigned (they are then in no part, as in the library) */
  {
    size_t cells = (size_t)VC_G * VC_K, nn = VC_NOBJ < cells ? VC_NOBJ : cells;
    for(size_t i = 0; i < VC_G; i++)
      for(size_t j = 0; j < VC_K; j++)
        g[i][j] = -1;
    for(size_t o = 0; o < nn; o++) {
      size_t pos = o;
#if VC_LAYOUT == 1
      g[pos / VC_K][pos % VC_K] = (int)(nn - 1 - o);
#elif VC_LAYOUT == 2
      if(nn < cells) pos = o + 1;
      g[pos % VC_G][pos / VC_G] = (int)o;
#else
      g[pos / VC_K][pos % VC_K] = (int)o;
#endif
    }
    for(size_t i = 0; i < VC_G; i++)
      for(size_t j = 0; j < VC_K; j++) {
        gid->data[i][j] = (double)g[i][j];
        if(g[i][j] >= 0) { filled++; if(i == grp) in_g++; }
      }
  }
  matrix *xtr, *ytr, *xte, *yte;
  initMatrix(&xtr); initMatrix(&ytr); initMatrix(&xte); initMatrix(&yte);
  kfold_group_train_test_split(x, y, gid, grp, xtr, ytr, xte, yte);
  VC_CHECK("split: test part has one row per object of the group, train part one row per object of the other groups",
           xte->row == in_g && yte->row == in_g && xtr->row == filled - in_g && ytr->row == filled - in_g);
  VC_CHECK("split: column counts preserved", xte->col == VC_XC && xtr->col == VC_XC && yte->col == VC_NY && ytr->col == VC_NY);
  size_t k = 0, l = 0;
  for(size_t i = 0; i < VC_G; i++)
    for(size_t j = 0; j < VC_K; j++) {
      int a = g[i][j];
      if(a < 0) continue;
      if(i == grp) {
        if(l < xte->row) {
          for(size_t n = 0; n < VC_XC; n++) VC_CHECK("split: test x row l is the row of the l-th object of the group", VC_SAME(xte->data[l][n], xc[a][n]));
          for(size_t n = 0; n < VC_NY; n++) VC_CHECK("split: test y row l carries every response of that object", VC_SAME(yte->data[l][n], yc[a][n]));
        }
        l++;
      } else {
        if(k < xtr->row) {
          for(size_t n = 0; n < VC_XC; n++) VC_CHECK("split: train x row k is an object of another group", VC_SAME(xtr->data[k][n], xc[a][n]));
          for(size_t n = 0; n < VC_NY; n++) VC_CHECK("split: train y row k carries every response of that object", VC_SAME(ytr->data[k][n], yc[a][n]));
        }
        k++;
      }
    }
  VC_REACH();
}

void h_group_generator(void)
{
  matrix *gid;
  initMatrix(&gid);
  unsigned int seed = (unsigned int)VC_IN_SIZE();
  draws = 0;
  last_fresh = 1;
  GID = gid;
  random_kfold_group_generator(gid, VC_G, VC_NOBJ, &seed);
  size_t cols = (VC_NOBJ + VC_G - 1) / VC_G;
  VC_CHECK("groups: table is ngroups x ceil(nobj/ngroups)", gid->row == VC_G && gid->col == cols);
  size_t cnt = 0, mask = 0;
  for(size_t i = 0; i < gid->row; i++)
    for(size_t j = 0; j < gid->col; j++) {
      double v = gid->data[i][j];
      if(v == -1.0) continue;
      VC_CHECK("groups: a filled cell is an object number in [0,nobj)", v >= 0.0 && v < (double)VC_NOBJ && v == (double)(size_t)v);
      if(v >= 0.0 && v < (double)VC_NOBJ) {
        VC_CHECK("groups: no object appears in two cells", !(mask & ((size_t)1 << (size_t)v)));
        mask |= (size_t)1 << (size_t)v;
      }
      cnt++;
    }
  VC_CHECK("groups: every object is assigned (the assignment is a partition)", cnt == VC_NOBJ && mask == (((size_t)1 << VC_NOBJ) - 1));
  VC_REACH();
}
