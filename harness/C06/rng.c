/* C06: the seeded stream is a function of the seed alone: each generator call replaces the state by
 * generate_seed(old state) (the code's own step function), touches nothing else (frame, enforced by DFCC), never
 * consults the clock once seeded, and randInt stays in [low, high).  Loop-free: complete for all 32-bit states. */
#include "vc.h"
#include <time.h>
int clock_consulted;
static time_t vc_time(time_t *t) { clock_consulted = 1; (void)t; return (time_t)12345; }
#define time vc_time
#include "numeric.c"
#undef time
#include "contracts/numeric.h"
#ifdef VC_CBMC
extern uint32_t vc_gs_in[4], vc_gs_out[4];
extern unsigned vc_gs_calls;
/* step(x) is opaque under the verifier: "state == step(x)" means: exactly one step call, on x, and its result stored */
#define STATE_IS_STEP_OF(x) (vc_gs_calls == 1 && vc_gs_in[0] == (x) && XOR128_SEED == vc_gs_out[0])
#define GHOST_RESET() do { vc_gs_calls = 0; clock_consulted = 0; } while(0)
#else
#define GHOST_RESET() do { clock_consulted = 0; } while(0)
#define STATE_IS_STEP_OF(x) (XOR128_SEED == generate_seed(x))
#endif

void h_srand_(void)
{
  GHOST_RESET();
  uint32_t seed = (uint32_t)vc_in_u64();
  XOR128_SEED = (uint32_t)vc_in_u64();
  srand_(seed);
  VC_CHECK("srand_: state == step(seed), independent of the previous state", STATE_IS_STEP_OF(seed));
  VC_REACH();
}

void h_randInt(void)
{
  GHOST_RESET();
  uint32_t st = (uint32_t)vc_in_u64();
  int low = VC_IN_INT(), high = VC_IN_INT();
  VC_ASSUME(st != 0 && low < high && (long)high - (long)low <= 2147483647L);
  XOR128_SEED = st;
  int r = randInt(low, high);
  VC_CHECK("randInt: low <= r < high", low <= r && r < high);
  VC_CHECK("randInt: state advanced by the step function only", STATE_IS_STEP_OF(st));
  VC_CHECK("randInt: clock not consulted once seeded", !clock_consulted);
  VC_REACH();
}

void h_rand_(void)
{
  GHOST_RESET();
  uint32_t st = (uint32_t)vc_in_u64();
  VC_ASSUME(st != 0);
  XOR128_SEED = st;
  double r = rand_();
  VC_CHECK("rand_: value is a 32-bit integer", r >= 0.0 && r <= 4294967295.0);
  VC_CHECK("rand_: state advanced by the step function only", STATE_IS_STEP_OF(st));
  VC_CHECK("rand_: clock not consulted once seeded", !clock_consulted);
  VC_REACH();
}

void h_randDouble(void)
{
  GHOST_RESET();
  uint32_t st = (uint32_t)vc_in_u64();
  double low = VC_IN_DBL(), high = VC_IN_DBL();
  VC_ASSUME(st != 0);
  XOR128_SEED = st;
  (void)randDouble(low, high);
  VC_CHECK("randDouble: state advanced by the step function only", STATE_IS_STEP_OF(st));
  VC_CHECK("randDouble: clock not consulted once seeded", !clock_consulted);
  VC_REACH();
}
