/* C07: structure of MLR() / MLRPredictY() on the real bodies (mlr.c included), bounded concrete shapes.
 * The least-squares solver and the column average are oracles that record their operands and return recorded
 * coefficients, so the design-matrix layout (leading column of ones, column j+1 = predictor j), one solve per response
 * with that response's column, the coefficient table layout and the prediction formula intercept + X*b are observable.
 * The prediction formula is checked on coefficient instances that make it exact in IEEE arithmetic:
 *   instance I0: all coefficients 0 -> prediction == 0, residual == -observed
 *   instance I1: slopes 0, intercept symbolic, observed responses 0 -> prediction == residual == intercept
 *   instance U: intercept 0, unit slope on predictor VC_J0 -> prediction == that predictor's value */
#include "vc.h"
#include "matrix.h"
#include "vector.h"
#include "numeric.h"
#ifndef VC_N
#define VC_N 3
#endif
#ifndef VC_XC
#define VC_XC 2
#endif
#ifndef VC_NY
#define VC_NY 2
#endif
#ifndef VC_J0
#define VC_J0 0
#endif
#define GMAX 8
static size_t ols_calls;
static double ols_x[GMAX][GMAX][GMAX], ols_y[GMAX][GMAX], coef[GMAX][GMAX];
static size_t ols_rows[GMAX], ols_cols[GMAX];
static void vc_OLS(matrix *x, dvector *y, dvector *b)
{
  size_t c = ols_calls++;
  if(c < GMAX) {
    ols_rows[c] = x->row; ols_cols[c] = x->col;
    VC_CHECK("solver called with a response vector as long as the design matrix is tall", y->size == x->row);
    for(size_t i = 0; i < x->row && i < GMAX; i++) {
      ols_y[c][i] = y->data[i];
      for(size_t j = 0; j < x->col && j < GMAX; j++) ols_x[c][i][j] = x->data[i][j];
    }
  }
  for(size_t j = 0; j < x->col; j++) {
    double v;
#ifdef VC_INST_U
    v = (j == VC_J0 + 1) ? 1.0 : 0.0;
#else
    v = 0.0;
#ifdef VC_INST_I1
    if(j == 0) { v = VC_IN_DBL(); VC_ASSUME(v > -1e3 && v < 1e3); }   /* symbolic intercept (responses are 0 in this instance) */
#endif
#endif
    if(c < GMAX && j < GMAX) coef[c][j] = v;
    DVectorAppend(b, v);
  }
}
static double ymean_tag[GMAX];
static void vc_ColAverage(matrix *m, dvector *v)
{
  for(size_t j = 0; j < m->col; j++) { ymean_tag[j] = 100.0 + (double)j; DVectorAppend(v, ymean_tag[j]); }
}
#define OrdinaryLeastSquares vc_OLS
#define MatrixColAverage vc_ColAverage
#include "mlr.c"

void h_MLR(void)
{
  matrix *mx, *my;
  double x[GMAX][GMAX], y[GMAX][GMAX];
  NewMatrix(&mx, VC_N, VC_XC); NewMatrix(&my, VC_N, VC_NY);
  for(size_t i = 0; i < VC_N; i++) {
    for(size_t j = 0; j < VC_XC; j++) { x[i][j] = VC_IN_DBL(); VC_ASSUME(x[i][j] > -1e3 && x[i][j] < 1e3); mx->data[i][j] = x[i][j]; }
    for(size_t j = 0; j < VC_NY; j++) {
      y[i][j] = VC_IN_DBL(); VC_ASSUME(y[i][j] > -1e3 && y[i][j] < 1e3);
#ifdef VC_INST_I1
      VC_ASSUME(y[i][j] == 0.0); VC_NATIVE_ONLY(y[i][j] = 0.0;)
#endif
      my->data[i][j] = y[i][j];
    }
  }
  MLRMODEL *model;
  NewMLRModel(&model);
  ols_calls = 0;
  MLR(mx, my, model, NULL);
  VC_CHECK("MLR: one least-squares solve per response", ols_calls == VC_NY);
  VC_CHECK("MLR: coefficient table is (predictors+1) x responses", model->b->row == VC_XC + 1 && model->b->col == VC_NY);
  for(size_t k = 0; k < VC_NY; k++) {
    VC_CHECK("MLR: design matrix has one row per object and predictors+1 columns", ols_rows[k] == VC_N && ols_cols[k] == VC_XC + 1);
    for(size_t i = 0; i < VC_N; i++) {
      VC_CHECK("MLR: design matrix column 0 is the intercept column of ones", ols_x[k][i][0] == 1.0);
      for(size_t j = 0; j < VC_XC; j++)
        VC_CHECK("MLR: design matrix column j+1 is predictor j", VC_SAME(ols_x[k][i][j + 1], x[i][j]));
      VC_CHECK("MLR: solve k is given response column k", VC_SAME(ols_y[k][i], y[i][k]));
    }
    for(size_t j = 0; j <= VC_XC; j++)
      VC_CHECK("MLR: column k of the coefficient table holds the coefficients of response k", VC_SAME(model->b->data[j][k], coef[k][j]));
  }
  VC_CHECK("MLR: recalculated responses and residuals are objects x responses", model->recalculated_y->row == VC_N && model->recalculated_y->col == VC_NY &&
           model->recalc_residuals->row == VC_N && model->recalc_residuals->col == VC_NY);
  VC_CHECK("MLR: one R2 and one SDEC per response", model->r2y_model->size == VC_NY && model->sdec->size == VC_NY);
  for(size_t k = 0; k < VC_NY; k++)
    for(size_t i = 0; i < VC_N; i++) {
#ifdef VC_INST_U
      VC_CHECK("prediction = intercept + X*b (unit slope on one predictor, zero intercept: equals that predictor)", model->recalculated_y->data[i][k] == x[i][VC_J0]);
#else
      VC_CHECK("prediction = intercept + X*b (zero slopes: equals the intercept)", model->recalculated_y->data[i][k] == coef[k][0]);
      VC_CHECK("residual = prediction - observed response", VC_SAME(model->recalc_residuals->data[i][k], coef[k][0] - y[i][k]));
#endif
    }
  VC_REACH();
}
