/* C08: class bookkeeping of LDA() on its real body (lda.c included), bounded concrete label vectors (numbered from 0 or
 * from 1, unbalanced), symbolic features.  Numerical callees are recording oracles.  Decided: class_start / nclass, the
 * class-id list is the objects grouped by class in their original order, the prior of class k is count_k / n, row k of
 * the class-mean table is the column average of exactly the objects of class k (operand recorded), table shapes. */
#include "vc.h"
#include "matrix.h"
#include "vector.h"
#include "tensor.h"
#ifndef VC_NOBJ
#define VC_NOBJ 4
#endif
#ifndef VC_NF
#define VC_NF 2
#endif
#ifndef VC_LAB
#define VC_LAB {0, 1, 0, 1}
#endif
#define GMAX 8
static const int LAB[] = VC_LAB;
static size_t avg_calls;
static size_t avg_rows[GMAX];
static double avg_ids[GMAX][GMAX];     /* object tags (column 0) of the rows the average was taken over */
static void vc_ColAverage(matrix *m, dvector *v)
{
  size_t c = avg_calls++;
  if(c < GMAX) {
    avg_rows[c] = m->row;
    for(size_t i = 0; i < m->row && i < GMAX; i++) avg_ids[c][i] = m->data[i][0];
  }
  for(size_t j = 0; j < m->col; j++) DVectorAppend(v, 1000.0 * (double)(c + 1) + (double)j);   /* tagged mean of call c */
}
static void vc_MatMul(matrix *a, matrix *b, matrix *r) { (void)a; (void)b; (void)r; }
static void vc_Inv(matrix *m, matrix *inv) { ResizeMatrix(inv, m->row, m->col); MatrixSet(inv, 1.0); }
static void vc_PInv(matrix *m, matrix *inv) { (void)m; (void)inv; }
static void vc_EVect(matrix *m, dvector *eval, matrix *evect) { DVectorResize(eval, m->row); ResizeMatrix(evect, m->row, m->row); }
static void vc_VecMat(matrix *m, dvector *v, dvector *p) { (void)m; (void)v; for(size_t i = 0; i < p->size; i++) p->data[i] = 1.0; }
static void vc_Mean(dvector *d, double *m) { (void)d; *m = 1.0; }
static double vc_fn(double x) { (void)x; return 1.0; }
#define MatrixColAverage vc_ColAverage
#define MatrixDotProduct vc_MatMul
#define MatrixInversion vc_Inv
#define MatrixPseudoinversion vc_PInv
#define EVectEval vc_EVect
#define DVectorMatrixDotProduct vc_VecMat
#define DVectorMean vc_Mean
#define DVectorSDEV vc_Mean
#include <math.h>
#define sqrt vc_fn
#define exp vc_fn
#include "lda.c"
#undef sqrt
#undef exp

void h_LDA_bookkeeping(void)
{
  matrix *mx, *my;
  NewMatrix(&mx, VC_NOBJ, VC_NF); NewMatrix(&my, VC_NOBJ, 1);
  int lmin = LAB[0], lmax = LAB[0];
  for(size_t i = 0; i < VC_NOBJ; i++) {
    mx->data[i][0] = (double)i;                     /* object tag */
    for(size_t j = 1; j < VC_NF; j++) { double v = VC_IN_DBL(); VC_ASSUME(v > -1e3 && v < 1e3); mx->data[i][j] = v; }
    my->data[i][0] = (double)LAB[i];
    if(LAB[i] < lmin) lmin = LAB[i];
    if(LAB[i] > lmax) lmax = LAB[i];
  }
  LDAMODEL *lda;
  NewLDAModel(&lda);
  avg_calls = 0;
  LDA(mx, my, lda);
  size_t start = lmin == 0 ? 0 : 1, ncls = (size_t)(lmax - (int)start + 1);
  VC_CHECK("LDA: class numbering start and class count follow the labels (from 0 or from 1)", lda->class_start == start && lda->nclass == ncls);
  VC_CHECK("LDA: one prior per class, one mean row per class, one class id per object", lda->pprob->size == ncls && lda->mu->row == ncls && lda->mu->col == VC_NF &&
           lda->classid->size == VC_NOBJ);
  size_t pos = 0;
  for(size_t k = 0; k < ncls; k++) {
    size_t cnt = 0;
    for(size_t i = 0; i < VC_NOBJ; i++)
      if(LAB[i] == (int)(k + start)) {
        VC_CHECK("LDA: the class-id list holds the objects grouped by class, in their original order", pos < VC_NOBJ && lda->classid->data[pos] == i);
        VC_CHECK("LDA: the class mean is taken over exactly the objects of that class", k < GMAX && cnt < GMAX && avg_ids[k][cnt] == (double)i);
        pos++; cnt++;
      }
    VC_CHECK("LDA: the class mean is taken over exactly the objects of that class (count)", avg_rows[k] == cnt);
    VC_CHECK("LDA: prior of class k is its frequency count_k / n", lda->pprob->data[k] == (double)cnt / (double)VC_NOBJ);
    for(size_t j = 0; j < VC_NF; j++)
      VC_CHECK("LDA: row k of the class-mean table is the average computed for class k", lda->mu->data[k][j] == 1000.0 * (double)(k + 1) + (double)j);
  }
  VC_CHECK("LDA: every object is assigned to exactly one class", pos == VC_NOBJ);
  VC_REACH();
}
