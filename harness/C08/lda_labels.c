/* C08: label handling of LDAPrediction and LDAMulticlassStatistics on the real bodies (lda.c included), bounded
 * concrete shapes.  The numerical kernels called from them (dot products, log/exp/sqrt, ROC, PrecisionRecall) are
 * oracle functions of the harness: they return recorded arbitrary values / record their arguments.  What is decided is
 * the index/label arithmetic: in-bounds for labels numbered from 0 or 1, returned label in the training label range and
 * arg-max of the stored scores, one-vs-rest vectors handed to the ROC routines. */
#include "vc.h"
#include "matrix.h"
#include "vector.h"
#include "tensor.h"
#ifndef VC_NOBJ
#define VC_NOBJ 2
#endif
#ifndef VC_NF
#define VC_NF 2
#endif
#ifndef VC_NCLASS
#define VC_NCLASS 3
#endif
#ifndef VC_NE
#define VC_NE 1
#endif
#ifndef VC_CSTART
#define VC_CSTART 1
#endif
#define GMAX 8

static double oracle(void)
{
  double v = VC_IN_DBL();
  VC_ASSUME(v > -1e6 && v < 1e6); /* finite scores of moderate size: no NaN from Inf-Inf (non-singular covariance) */
  return v;
}
static void vc_MatVec(matrix *m, dvector *v, dvector *p)
{
  VC_CHECK("callee precondition M*v: v->size == m->col and p->size == m->row", v->size == m->col && p->size == m->row);
  for(size_t i = 0; i < p->size; i++)
    p->data[i] = oracle();
}
static void vc_VecMat(matrix *m, dvector *v, dvector *p)
{
  VC_CHECK("callee precondition v'*M: v->size == m->row and p->size == m->col", v->size == m->row && p->size == m->col);
  for(size_t i = 0; i < p->size; i++)
    p->data[i] = oracle();
}
static double vc_Dot(dvector *a, dvector *b)
{
  VC_CHECK("callee precondition dot: equal sizes", a->size == b->size);
  return oracle();
}
static double vc_fn(double x) { (void)x; return oracle(); }

/* ROC / PrecisionRecall oracles: record the two indicator vectors they receive */
static size_t roc_calls, pr_calls;
static double roc_true[GMAX][GMAX], roc_pred[GMAX][GMAX], pr_true[GMAX][GMAX], pr_pred[GMAX][GMAX];
static double roc_auc_ret[GMAX];
static void vc_ROC(dvector *yt, dvector *yp, matrix *roc, double *auc)
{
  for(size_t i = 0; i < yt->size && i < GMAX; i++) { roc_true[roc_calls][i] = yt->data[i]; roc_pred[roc_calls][i] = yp->data[i]; }
  *auc = oracle();
  roc_auc_ret[roc_calls] = *auc;
  roc_calls++;
  (void)roc;
}
static void vc_PR(dvector *yt, dvector *yp, matrix *pr, double *ap)
{
  for(size_t i = 0; i < yt->size && i < GMAX; i++) { pr_true[pr_calls][i] = yt->data[i]; pr_pred[pr_calls][i] = yp->data[i]; }
  *ap = oracle();
  pr_calls++;
  (void)pr;
}
#define MatrixDVectorDotProduct vc_MatVec
#define DVectorMatrixDotProduct vc_VecMat
#define DVectorDVectorDotProd vc_Dot
#define ROC vc_ROC
#define PrecisionRecall vc_PR
#include <math.h>
#define log vc_fn
#define exp vc_fn
#define sqrt vc_fn
#include "lda.c"
#undef log
#undef exp
#undef sqrt

static void fill(matrix *m, size_t r, size_t c)
{
  ResizeMatrix(m, r, c);
  for(size_t i = 0; i < r; i++)
    for(size_t j = 0; j < c; j++)
      m->data[i][j] = 1.0 + (double)(i + 2 * j); /* never read except through the oracles */
}

void h_LDAPrediction(void)
{
  LDAMODEL *lda;
  NewLDAModel(&lda);
  fill(lda->inv_cov, VC_NF, VC_NF);
  fill(lda->mu, VC_NCLASS, VC_NF);
  fill(lda->evect, VC_NF, VC_NE);
  fill(lda->fmean, VC_NCLASS, VC_NE);
  fill(lda->fsdev, VC_NCLASS, VC_NE);
  DVectorResize(lda->pprob, VC_NCLASS);
  lda->nclass = VC_NCLASS;
  lda->class_start = VC_CSTART;
  matrix *mx, *pf, *prob, *mnpdf, *pred;
  NewMatrix(&mx, VC_NOBJ, VC_NF);
  initMatrix(&pf); initMatrix(&prob); initMatrix(&mnpdf); initMatrix(&pred);
  LDAPrediction(mx, lda, pf, prob, mnpdf, pred);
  VC_CHECK("LDAPrediction.shapes", prob->row == VC_NOBJ && prob->col == VC_NCLASS && pred->row == VC_NOBJ && pred->col == 1 &&
                                     mnpdf->row == VC_NOBJ && mnpdf->col == VC_NE);
  for(size_t i = 0; i < VC_NOBJ; i++) {
    double lab = pred->data[i][0];
    VC_CHECK("predicted label occurs in the training label range [class_start, class_start+nclass)",
             lab >= (double)VC_CSTART && lab < (double)(VC_CSTART + VC_NCLASS) && lab == (double)(size_t)lab);
    size_t idx = (size_t)lab - VC_CSTART;
    if(idx < VC_NCLASS)
      for(size_t j = 0; j < VC_NCLASS; j++)
        VC_CHECK("predicted label maximises the stored discriminant score", prob->data[i][idx] >= prob->data[i][j]);
  }
  VC_REACH();
}

void h_LDAMulticlassStatistics(void)
{
  matrix *yt, *yp;
  NewMatrix(&yt, VC_NOBJ, 1);
  NewMatrix(&yp, VC_NOBJ, 1);
  for(size_t i = 0; i < VC_NOBJ; i++) {
    size_t a = VC_IN_SIZE(), b = VC_IN_SIZE();
    VC_ASSUME(a < VC_NCLASS && b < VC_NCLASS);
    yt->data[i][0] = (double)a;
    yp->data[i][0] = (double)b;
  }
  dvector *ra, *pa;
  initDVector(&ra); initDVector(&pa);
  int ncls = getNClasses(yp);
  size_t expect = (ncls == 2) ? 1 : (size_t)ncls;
  LDAMulticlassStatistics(yt, yp, NULL, ra, NULL, pa);
  VC_CHECK("one ROC and one PR evaluation per class", roc_calls == expect && pr_calls == expect && ra->size == expect && pa->size == expect);
  for(size_t j = 0; j < expect && j < GMAX; j++) {
    VC_CHECK("AUC of class j is stored at position j", VC_SAME(ra->data[j], roc_auc_ret[j]));
    for(size_t i = 0; i < VC_NOBJ; i++) {
      VC_CHECK("ROC receives the one-vs-rest indicator of the TRUE labels", roc_true[j][i] == (((size_t)yt->data[i][0] == j) ? 1.0 : 0.0));
      VC_CHECK("ROC receives the one-vs-rest indicator of the PREDICTED labels", roc_pred[j][i] == (((size_t)yp->data[i][0] == j) ? 1.0 : 0.0));
      VC_CHECK("PrecisionRecall receives the same two indicators", pr_true[j][i] == roc_true[j][i] && pr_pred[j][i] == roc_pred[j][i]);
    }
  }
  VC_REACH();
}
