/* C10: option dispatch, zero-spread guard, missing-value skipping and block-wise tensor preprocessing on the real
 * bodies of preprocessing.c (included).  Column statistics enter as oracle functions returning tagged values, so that
 * WHICH statistic feeds the stored scaling for each option is observable; the column min/max routine is also checked
 * on its real body (comparisons only). */
#include "vc.h"
#include "matrix.h"
#include "vector.h"
#include "tensor.h"
#include "list.h"
#include "numeric.h"
#ifndef VC_R
#define VC_R 2
#endif
#ifndef VC_C
#define VC_C 2
#endif
#ifndef VC_TYPE
#define VC_TYPE 1
#endif
#define GMAX 8
/* tags: exact dyadic constants, one per statistic */
#define T_AVG 16.0
#define T_SDEV 4.0
#define T_RMS 8.0
#define T_MIN 1.0
#define T_MAX 33.0
#define T_SQRT 2.0
static double scale_oracle;   /* when non-zero: value returned by the SDEV oracle instead of its tag */
static int use_scale_oracle;
static size_t n_avg, n_sdev, n_rms, n_minmax, n_sqrt, n_mp;
static void vc_ColAverage(matrix *m, dvector *v) { n_avg++; for(size_t j = 0; j < m->col; j++) DVectorAppend(v, T_AVG); }
static void vc_ColSDEV(matrix *m, dvector *v) { n_sdev++; for(size_t j = 0; j < m->col; j++) DVectorAppend(v, use_scale_oracle ? scale_oracle : T_SDEV); }
static void vc_ColRMS(matrix *m, dvector *v) { n_rms++; for(size_t j = 0; j < m->col; j++) DVectorAppend(v, T_RMS); }
static void vc_ColumnMinMax(matrix *m, size_t col, double *mn, double *mx) { n_minmax++; VC_CHECK("min/max asked for an existing column", col < m->col); *mn = T_MIN; *mx = T_MAX; }
static double vc_sqrt(double x) { n_sqrt++; VC_CHECK("Pareto scaling takes the square root of the standard deviation", x == T_SDEV); return T_SQRT; }
void MatrixColumnMinMax(matrix *m, size_t col, double *min, double *max);
#ifndef VC_REAL_STATS
#define MatrixColAverage vc_ColAverage
#define MatrixColSDEV vc_ColSDEV
#define MatrixColRMS vc_ColRMS
#define MatrixColumnMinMax vc_ColumnMinMax
#include <math.h>
#define sqrt vc_sqrt
#endif
#ifdef VC_TENSOR
/* block-wise: record every MatrixPreprocess call made by TensorPreprocess */
static matrix *mp_orig[GMAX], *mp_trans[GMAX];
static int mp_type[GMAX];
static size_t mp_avg0[GMAX], mp_sc0[GMAX];
#endif
#include "preprocessing.c"
#undef sqrt
#undef MatrixColumnMinMax

static matrix *in_matrix(size_t r, size_t c, double rec[GMAX][GMAX])
{
  matrix *m;
  NewMatrix(&m, r, c);
  for(size_t i = 0; i < r; i++)
    for(size_t j = 0; j < c; j++) {
      double v = VC_IN_DBL();
      VC_ASSUME(v > -1e6 && v < 1e6);
      m->data[i][j] = v;
      if(rec) rec[i][j] = v;
    }
  return m;
}

/* which statistic feeds the stored vectors, per option; shape of the stored vectors; zero-scale columns; option -1 copies */
void h_dispatch(void)
{
  double x[GMAX][GMAX];
  matrix *o = in_matrix(VC_R, VC_C, x), *t;
  NewMatrix(&t, VC_R, VC_C);
  dvector *avg, *sc;
  initDVector(&avg); initDVector(&sc);
  MatrixPreprocess(o, VC_TYPE, avg, sc, t);
  if(VC_TYPE == -1) {
    VC_CHECK("option -1 stores nothing", avg->size == 0 && sc->size == 0);
    for(size_t i = 0; i < VC_R; i++)
      for(size_t j = 0; j < VC_C; j++)
        VC_CHECK("option -1 copies the matrix", VC_SAME(t->data[i][j], x[i][j]));
  } else {
    double expect = VC_TYPE == 1 ? T_SDEV : VC_TYPE == 2 ? T_RMS : VC_TYPE == 3 ? T_SQRT : VC_TYPE == 4 ? (T_MAX - T_MIN) : VC_TYPE == 5 ? T_AVG : 1.0;
    VC_CHECK("one stored average and one stored scaling per column", avg->size == VC_C && sc->size == VC_C);
    VC_CHECK("averages come from the column-average routine, once", n_avg == 1);
    VC_CHECK("the statistic routine matching the option is the one consulted",
             n_sdev == ((VC_TYPE == 1 || VC_TYPE == 3) ? 1u : 0u) && n_rms == (VC_TYPE == 2 ? 1u : 0u) &&
             n_minmax == (VC_TYPE == 4 ? (size_t)VC_C : 0u) && n_sqrt == (VC_TYPE == 3 ? (size_t)VC_C : 0u));
    for(size_t j = 0; j < VC_C; j++) {
      VC_CHECK("stored average is the column average", avg->data[j] == T_AVG);
      VC_CHECK("stored scaling is the statistic promised by the option (sd / rms / sqrt(sd) / max-min / mean / 1)", sc->data[j] == expect);
    }
    /* the tags are powers of two: (cell - average) / scaling is then one rounding (the subtraction) however it is evaluated */
    for(size_t i = 0; i < VC_R; i++)
      for(size_t j = 0; j < VC_C; j++)
        VC_CHECK("fit: transformed cell == (cell - stored average) / stored scaling", VC_SAME(t->data[i][j], (x[i][j] - T_AVG) / expect));
    /* apply: the stored vectors transform new data, nothing is re-estimated */
    double x2[GMAX][GMAX];
    matrix *o2 = in_matrix(VC_R, VC_C, x2), *t2;
    NewMatrix(&t2, VC_R, VC_C);
    MatrixPreprocess(o2, VC_TYPE, avg, sc, t2);
    VC_CHECK("apply: no statistic routine is consulted again", n_avg == 1 && n_sdev + n_rms <= 1 && n_minmax <= (size_t)VC_C && n_sqrt <= (size_t)VC_C);
    VC_CHECK("apply: stored vectors keep one entry per column", avg->size == VC_C && sc->size == VC_C);
    for(size_t j = 0; j < VC_C; j++) {
      VC_CHECK("apply: stored average and scaling are unchanged", avg->data[j] == T_AVG && sc->data[j] == expect);
      for(size_t i = 0; i < VC_R; i++)
        VC_CHECK("apply: transformed cell == (new cell - stored average) / stored scaling", VC_SAME(t2->data[i][j], (x2[i][j] - T_AVG) / expect));
    }
  }
  VC_REACH();
}

/* fit then apply on the same 1x1 matrix with an arbitrary scaling value s: both paths must agree on whether the column is
 * treated as having no spread (exactly 0) or divided */
void h_zero_guard(void)
{
  matrix *o, *t1, *t2;
  NewMatrix(&o, 1, 1); NewMatrix(&t1, 1, 1); NewMatrix(&t2, 1, 1);
  o->data[0][0] = T_AVG + 1.0;       /* centred value is exactly 1 */
  scale_oracle = VC_IN_DBL();
#ifdef VC_SPREAD_DOMAIN
  VC_ASSUME(scale_oracle >= 0.0 && scale_oracle < 1e6);
#else
  VC_ASSUME(scale_oracle > -1e6 && scale_oracle < 1e6);   /* level scaling stores the column mean, which may be negative */
#endif
#ifdef VC_SPREAD_DOMAIN
  VC_ASSUME(scale_oracle == 0.0 || scale_oracle >= 0.02);  /* the property's quantifier: spread >= 0.02 or exactly 0 */
#endif
  use_scale_oracle = 1;
  dvector *avg, *sc;
  initDVector(&avg); initDVector(&sc);
  MatrixPreprocess(o, 1, avg, sc, t1);     /* fit */
  MatrixPreprocess(o, 1, avg, sc, t2);     /* apply the stored vectors to the same matrix */
  VC_CHECK("fit and apply agree that a column has no spread (exactly 0) or has spread (divided)", (t1->data[0][0] == 0.0) == (t2->data[0][0] == 0.0));
  VC_CHECK("a column without spread becomes exactly zero, never NaN/Inf", scale_oracle != 0.0 || (t1->data[0][0] == 0.0 && t2->data[0][0] == 0.0));
  VC_CHECK("a column whose stored scaling is clearly non-zero (|s| >= 0.02) is divided, not zeroed",
           !(scale_oracle >= 0.02 || scale_oracle <= -0.02) || (t1->data[0][0] != 0.0 && t2->data[0][0] != 0.0));
  VC_REACH();
}

#ifdef VC_REAL_STATS
/* real column min/max: bounds every non-missing cell and ignores missing-coded cells wherever they are */
void h_minmax(void)
{
  double x[GMAX][GMAX];
  matrix *m = in_matrix(VC_R, 1, x);
  size_t miss = VC_IN_SIZE();    /* which row carries the missing code (VC_R = none) */
  VC_ASSUME(miss <= VC_R);
  size_t nonmiss = 0;
  for(size_t i = 0; i < VC_R; i++) {
    VC_ASSUME(!FLOAT_EQ(x[i][0], MISSING, 1.0));
    if(i == miss) m->data[i][0] = MISSING; else nonmiss++;
  }
  double mn, mx;
  MatrixColumnMinMax(m, 0, &mn, &mx);
  if(nonmiss > 0) {
    int amin = 0, amax = 0;
    for(size_t i = 0; i < VC_R; i++) {
      if(i == miss) continue;
      VC_CHECK("min bounds every non-missing cell", mn <= x[i][0]);
      VC_CHECK("max bounds every non-missing cell", mx >= x[i][0]);
      if(mn == x[i][0]) amin = 1;
      if(mx == x[i][0]) amax = 1;
    }
    VC_CHECK("min is attained by a non-missing cell (the missing code does not influence it)", amin);
    VC_CHECK("max is attained by a non-missing cell (the missing code does not influence it)", amax);
  }
  VC_REACH();
}
#endif

#ifdef VC_TENSOR_JOB
/* TensorPreprocess: block k of the output and entry k of each list come from MatrixPreprocess(orig->m[k], type, fresh
 * empty vectors, trans->m[k]) - "tensor preprocessing equals matrix preprocessing applied block by block" */
extern size_t vc_mp_calls, vc_mp_avg0[GMAX], vc_mp_sc0[GMAX];
extern matrix *vc_mp_orig[GMAX], *vc_mp_trans[GMAX];
extern int vc_mp_type[GMAX];
#ifndef VC_ORD
#define VC_ORD 2
#endif
void h_TensorPreprocess(void)
{
  tensor *o, *t;
  dvectorlist *avgs, *scs;
  NewTensor(&o, VC_ORD); NewTensor(&t, VC_ORD);
  for(size_t k = 0; k < VC_ORD; k++) { NewTensorMatrix(o, k, VC_R, k + 1); NewTensorMatrix(t, k, VC_R, k + 1); }
  initDVectorList(&avgs); initDVectorList(&scs);
  int type = VC_IN_INT();
  VC_ASSUME(type >= -1 && type <= 5);
  TensorPreprocess(o, type, avgs, scs, t);
  VC_CHECK("TensorPreprocess: one matrix preprocessing per block", vc_mp_calls == VC_ORD);
  VC_CHECK("TensorPreprocess: one stored average vector and one stored scaling vector per block", avgs->size == VC_ORD && scs->size == VC_ORD);
  for(size_t k = 0; k < VC_ORD; k++) {
    VC_CHECK("TensorPreprocess: block k is preprocessed from input block k into output block k with the requested option",
             vc_mp_orig[k] == o->m[k] && vc_mp_trans[k] == t->m[k] && vc_mp_type[k] == type);
    VC_CHECK("TensorPreprocess: every block is fitted on its own (fresh, empty statistic vectors)", vc_mp_avg0[k] == 0 && vc_mp_sc0[k] == 0);
    VC_CHECK("TensorPreprocess: list entry k has one value per column of block k", avgs->d[k]->size == k + 1 && scs->d[k]->size == k + 1);
    for(size_t j = 0; j < k + 1; j++)
      VC_CHECK("TensorPreprocess: list entry k holds the statistics of block k", avgs->d[k]->data[j] == 10.0 * (double)(k + 1) + (double)j &&
               scs->d[k]->data[j] == 100.0 * (double)(k + 1) + (double)j);
  }
  VC_REACH();
}
#endif
