/* C11: dense kernels against their textbook definitions.
 * Ring jobs (compiled with ring_prelude.h: double := int8, the ring Z/256): one solver call per concrete shape
 * (VC_M x VC_N times VC_N x VC_P); every cell of the result is compared with the definition evaluated in textbook
 * order by the harness; the output matrix starts from arbitrary contents because the kernels accumulate.
 * IEEE jobs: pure data movement (transpose, sort) and memory safety. */
#include "vc.h"
#include <math.h>
#include "matrix.h"
#include "vector.h"
#include "numeric.h"
#ifndef VC_M
#define VC_M 2
#endif
#ifndef VC_N
#define VC_N 5
#endif
#ifndef VC_P
#define VC_P 2
#endif
#define GMAX 20
/* ghost cell of the result checked by this solver call (the orchestrator enumerates all cells); -1 = all cells */
#ifndef VC_GI
#define VC_GI -1
#endif
#ifndef VC_GJ
#define VC_GJ -1
#endif
#define GHOST(i, j) ((VC_GI < 0 || (long)(i) == VC_GI) && (VC_GJ < 0 || (long)(j) < 0 || (long)(j) == VC_GJ))
#ifdef VC_RING
#define IN_CELL() ((double)(int8_t)vc_in_u64())
#else
#define IN_CELL() VC_IN_DBL()
#endif

static matrix *in_matrix(size_t r, size_t c)
{
  matrix *m;
  NewMatrix(&m, r, c);
  for(size_t i = 0; i < r; i++)
    for(size_t j = 0; j < c; j++)
      m->data[i][j] = IN_CELL();
  return m;
}
static dvector *in_dvector(size_t n)
{
  dvector *d;
  NewDVector(&d, n);
  for(size_t i = 0; i < n; i++)
    d->data[i] = IN_CELL();
  return d;
}

void h_MatrixDotProduct(void)
{
  matrix *a = in_matrix(VC_M, VC_N), *b = in_matrix(VC_N, VC_P), *r = in_matrix(VC_M, VC_P);
  double r0[GMAX][GMAX];
  for(size_t i = 0; i < VC_M; i++)
    for(size_t j = 0; j < VC_P; j++)
      r0[i][j] = r->data[i][j];
  MatrixDotProduct(a, b, r);
  for(size_t i = 0; i < VC_M; i++)
    for(size_t j = 0; j < VC_P; j++) {
      if(!GHOST(i, j)) continue;
      double s = r0[i][j];
      for(size_t k = 0; k < VC_N; k++)
        s += a->data[i][k] * b->data[k][j];
      VC_CHECK("MatrixDotProduct: r[i][j] = previous r[i][j] + sum_k a[i][k]*b[k][j]", r->data[i][j] == s);
    }
  VC_REACH();
}

void h_product_laws(void)
{
  /* (AB)^T = B^T A^T and A(B+C) = AB + AC, all through the library's own kernels */
  matrix *a = in_matrix(VC_M, VC_N), *b = in_matrix(VC_N, VC_P), *c = in_matrix(VC_N, VC_P);
  matrix *ab, *abt, *at, *bt, *btat, *bc, *abc, *ac;
  NewMatrix(&ab, VC_M, VC_P); NewMatrix(&abt, VC_P, VC_M); NewMatrix(&at, VC_N, VC_M); NewMatrix(&bt, VC_P, VC_N);
  NewMatrix(&btat, VC_P, VC_M); NewMatrix(&bc, VC_N, VC_P); NewMatrix(&abc, VC_M, VC_P); NewMatrix(&ac, VC_M, VC_P);
  MatrixDotProduct(a, b, ab);
  MatrixTranspose(ab, abt);
  MatrixTranspose(a, at);
  MatrixTranspose(b, bt);
  MatrixDotProduct(bt, at, btat);
  for(size_t i = 0; i < VC_P; i++)
    for(size_t j = 0; j < VC_M; j++)
      if(GHOST(j, i))
        VC_CHECK("(AB)^T == B^T A^T", abt->data[i][j] == btat->data[i][j]);
  for(size_t i = 0; i < VC_N; i++)
    for(size_t j = 0; j < VC_P; j++)
      bc->data[i][j] = b->data[i][j] + c->data[i][j];
  MatrixDotProduct(a, bc, abc);
  MatrixDotProduct(a, c, ac);
  for(size_t i = 0; i < VC_M; i++)
    for(size_t j = 0; j < VC_P; j++)
      if(GHOST(i, j))
        VC_CHECK("A(B+C) == AB + AC", abc->data[i][j] == (double)(ab->data[i][j] + ac->data[i][j]));
  VC_REACH();
}

void h_MatrixDVectorDotProduct(void)
{
  matrix *m = in_matrix(VC_M, VC_N);
  dvector *v = in_dvector(VC_N), *p = in_dvector(VC_M);
  double p0[GMAX];
  for(size_t i = 0; i < VC_M; i++)
    p0[i] = p->data[i];
  MatrixDVectorDotProduct(m, v, p);
  for(size_t i = 0; i < VC_M; i++) {
    if(!GHOST(i, -1L)) continue;
    double s = p0[i];
    for(size_t j = 0; j < VC_N; j++)
      s += m->data[i][j] * v->data[j];
    VC_CHECK("MatrixDVectorDotProduct: p[i] = previous p[i] + sum_j m[i][j]*v[j]", p->data[i] == s);
  }
  VC_REACH();
}

void h_DVectorMatrixDotProduct(void)
{
  matrix *m = in_matrix(VC_M, VC_N);
  dvector *v = in_dvector(VC_M), *p = in_dvector(VC_N);
  double p0[GMAX];
  for(size_t j = 0; j < VC_N; j++)
    p0[j] = p->data[j];
  DVectorMatrixDotProduct(m, v, p);
  for(size_t j = 0; j < VC_N; j++) {
    if(!GHOST(j, -1L)) continue;
    double s = p0[j];
    for(size_t i = 0; i < VC_M; i++)
      s += v->data[i] * m->data[i][j];
    VC_CHECK("DVectorMatrixDotProduct: p[j] = previous p[j] + sum_i v[i]*m[i][j]", p->data[j] == s);
  }
  VC_REACH();
}

void h_vector_products(void)
{
  dvector *a = in_dvector(VC_M), *b = in_dvector(VC_N), *c = in_dvector(VC_M);
  matrix *o, *o2;
  NewMatrix(&o, VC_M, VC_N);
  initMatrix(&o2);
  double dot = DVectorDVectorDotProd(a, c), s = 0;
  for(size_t i = 0; i < VC_M; i++)
    s += a->data[i] * c->data[i];
  VC_CHECK("DVectorDVectorDotProd == sum_i a[i]*c[i]", dot == s);
  RowColOuterProduct(a, b, o);
  DVectorTrasposedDVectorDotProduct(a, b, o2);
  VC_CHECK("DVectorTrasposedDVectorDotProduct: result is |a| x |b|", o2->row == VC_M && o2->col == VC_N);
  for(size_t i = 0; i < VC_M; i++)
    for(size_t j = 0; j < VC_N; j++) {
      if(!GHOST(i, j)) continue;
      VC_CHECK("RowColOuterProduct: m[i][j] = a[i]*b[j]", o->data[i][j] == (double)(a->data[i] * b->data[j]));
      VC_CHECK("DVectorTrasposedDVectorDotProduct: m[i][j] = a[i]*b[j]", o2->data[i][j] == (double)(a->data[i] * b->data[j]));
    }
  VC_REACH();
}

void h_outer_into_existing(void)
{
  /* memory safety / shape of the outer product into an already allocated matrix of a different shape (IEEE) */
  dvector *a = in_dvector(VC_M), *b = in_dvector(VC_N);
  matrix *o;
  NewMatrix(&o, VC_P, VC_P);
  DVectorTrasposedDVectorDotProduct(a, b, o);
  VC_CHECK("DVectorTrasposedDVectorDotProduct into an existing matrix: result is |a| x |b|", o->row == VC_M && o->col == VC_N);
  VC_REACH();
}

void h_trace_transpose(void)
{
  matrix *m = in_matrix(VC_M, VC_N), *t, *tt, *sq = in_matrix(VC_N, VC_N);
  NewMatrix(&t, VC_N, VC_M);
  NewMatrix(&tt, VC_M, VC_N);
  MatrixTranspose(m, t);
  MatrixTranspose(t, tt);
  for(size_t i = 0; i < VC_M; i++)
    for(size_t j = 0; j < VC_N; j++) {
      VC_CHECK("MatrixTranspose: t[j][i] = m[i][j]", VC_SAME(t->data[j][i], m->data[i][j]));
      VC_CHECK("transpose is an involution", VC_SAME(tt->data[i][j], m->data[i][j]));
    }
  double tr = MatrixTrace(sq), s = 0;
  for(size_t i = 0; i < VC_N; i++)
    s += sq->data[i][i];
  VC_CHECK("MatrixTrace == sum_i m[i][i]", VC_SAME(tr, s));
  VC_REACH();
}

/* data movement only: larger shapes (both dimensions beyond any small-tile threshold, not multiples of 4) stay cheap */
void h_transpose_large(void)
{
  matrix *m = in_matrix(VC_M, VC_N), *t, *tt;
  NewMatrix(&t, VC_N, VC_M);
  NewMatrix(&tt, VC_M, VC_N);
  MatrixTranspose(m, t);
  MatrixTranspose(t, tt);
  for(size_t i = 0; i < VC_M; i++)
    for(size_t j = 0; j < VC_N; j++) {
      VC_CHECK("MatrixTranspose: t[j][i] = m[i][j]", VC_SAME(t->data[j][i], m->data[i][j]));
      VC_CHECK("transpose is an involution", VC_SAME(tt->data[i][j], m->data[i][j]));
    }
  VC_REACH();
}

void h_sort(void)
{
  /* rows = VC_M, columns: key (symbolic, not NaN) and a tag holding the original row number */
  matrix *m, *r;
  double key[GMAX];
  NewMatrix(&m, VC_M, 2);
  NewMatrix(&r, VC_M, 2);
  for(size_t i = 0; i < VC_M; i++) {
    key[i] = VC_IN_DBL();
    VC_ASSUME(key[i] == key[i]);
    m->data[i][0] = key[i]; m->data[i][1] = (double)i;
    r->data[i][0] = key[i]; r->data[i][1] = (double)i;
  }
  MatrixSort(m, 0);
  MatrixReverseSort(r, 0);
  size_t seen = 0, seen_r = 0;
  for(size_t i = 0; i < VC_M; i++) {
    size_t tag = (size_t)m->data[i][1], tag_r = (size_t)r->data[i][1];
    VC_CHECK("sort: every output row is an input row (tag in range, key travels with its tag)", tag < VC_M && VC_SAME(m->data[i][0], key[tag]));
    VC_CHECK("reverse sort: every output row is an input row", tag_r < VC_M && VC_SAME(r->data[i][0], key[tag_r]));
    if(tag < VC_M) seen |= (size_t)1 << tag;
    if(tag_r < VC_M) seen_r |= (size_t)1 << tag_r;
    if(i + 1 < VC_M) {
      VC_CHECK("sort: key column ascending", m->data[i][0] <= m->data[i + 1][0]);
      VC_CHECK("reverse sort: key column descending", r->data[i][0] >= r->data[i + 1][0]);
    }
  }
  VC_CHECK("sort: output is a permutation of the input rows", seen == (((size_t)1 << VC_M) - 1));
  VC_CHECK("reverse sort: output is a permutation of the input rows", seen_r == (((size_t)1 << VC_M) - 1));
  VC_REACH();
}

#include "tensor.h"
/* tensor contractions (ring mode): two blocks of VC_M x VC_N */
static tensor *in_tensor(size_t order, size_t r, size_t c)
{
  tensor *t;
  NewTensor(&t, order);
  for(size_t k = 0; k < order; k++) {
    NewTensorMatrix(t, k, r, c);
    for(size_t i = 0; i < r; i++)
      for(size_t j = 0; j < c; j++)
        t->m[k]->data[i][j] = IN_CELL();
  }
  return t;
}

void h_tensor_contractions(void)
{
  tensor *t = in_tensor(2, VC_M, VC_N);
  /* P(k,i) += sum_j T(k,i,j) v(j) */
  dvector *v = in_dvector(VC_N);
  matrix *p = in_matrix(2, VC_M);
  double p0[2][GMAX];
  for(size_t k = 0; k < 2; k++) for(size_t i = 0; i < VC_M; i++) p0[k][i] = p->data[k][i];
  TransposedTensorDVectorProduct(t, v, p);
  for(size_t k = 0; k < 2; k++)
    for(size_t i = 0; i < VC_M; i++) {
      if(!GHOST(k, i)) continue;
      double s = p0[k][i];
      for(size_t j = 0; j < VC_N; j++) s += t->m[k]->data[i][j] * v->data[j];
      VC_CHECK("TransposedTensorDVectorProduct: P(k,i) = previous + sum_j T(k,i,j) v(j)", p->data[k][i] == s);
    }
  /* M(j,k) += sum_i w(i) T(k,i,j) */
  dvector *w = in_dvector(VC_M);
  matrix *m = in_matrix(VC_N, 2);
  double m0[GMAX][2];
  for(size_t j = 0; j < VC_N; j++) for(size_t k = 0; k < 2; k++) m0[j][k] = m->data[j][k];
  DvectorTensorDotProduct(t, w, m);
  for(size_t j = 0; j < VC_N; j++)
    for(size_t k = 0; k < 2; k++) {
      if(!GHOST(k, j)) continue;
      double s = m0[j][k];
      for(size_t i = 0; i < VC_M; i++) s += w->data[i] * t->m[k]->data[i][j];
      VC_CHECK("DvectorTensorDotProduct: M(j,k) = previous + sum_i w(i) T(k,i,j)", m->data[j][k] == s);
    }
  /* u(i) += sum_k sum_j T(k,i,j) Q(j,k) */
  matrix *q = in_matrix(VC_N, 2);
  dvector *u = in_dvector(VC_M);
  double u0[GMAX];
  for(size_t i = 0; i < VC_M; i++) u0[i] = u->data[i];
  TensorMatrixDotProduct(t, q, u);
  for(size_t i = 0; i < VC_M; i++) {
    if(!GHOST(-1L, i) && VC_GJ >= 0 && (long)i != VC_GJ) continue;
    double s = u0[i];
    for(size_t k = 0; k < 2; k++)
      for(size_t j = 0; j < VC_N; j++) s += t->m[k]->data[i][j] * q->data[j][k];
    VC_CHECK("TensorMatrixDotProduct: u(i) = previous + sum_k sum_j T(k,i,j) Q(j,k)", u->data[i] == s);
  }
  VC_REACH();
}

/* Column / row statistics against their definitions on exact instances (IEEE mode, cells restricted to the integers
 * 0..3, row/column counts 1 or 2 and n-1 = 1): every sum, difference, product and quotient of the definition is then
 * exactly representable, so every mathematically equivalent evaluation (other order, one-pass formulas, reciprocal
 * multiplication) returns the same double and exact equality is the right obligation.  What is decided: which cells enter
 * which statistic, the counts and the denominators (n, n-1); sqrt is an uninterpreted function (stubs/usqrt_stub.c);
 * rounding on general data and the missing-value branches are not decided. */
#ifdef VC_STATS
static double small_cell(void)
{
  uint64_t v = vc_in_u64();
  VC_ASSUME(v <= 3);
  return (double)v;
}
#define POW2(n) ((n) == 1 || (n) == 2 || (n) == 4)
void h_col_statistics(void)
{
  matrix *m, *cov;
  dvector *avg, *ravg, *var, *sd, *rms;
  double cell[GMAX][GMAX];
  NewMatrix(&m, VC_M, VC_N);
  for(size_t i = 0; i < VC_M; i++)
    for(size_t j = 0; j < VC_N; j++)
      cell[i][j] = m->data[i][j] = small_cell();
  initDVector(&avg); initDVector(&ravg); initDVector(&var); initDVector(&sd); initDVector(&rms);
  initMatrix(&cov);
  MatrixColAverage(m, avg);
  MatrixRowAverage(m, ravg);
  MatrixColVar(m, var);
  MatrixColSDEV(m, sd);
  MatrixColRMS(m, rms);
  MatrixCovariance(m, cov);
  double nrm = Matrixnorm(m);
  VC_CHECK("column statistics: one entry per column", avg->size == VC_N && var->size == VC_N && sd->size == VC_N && rms->size == VC_N);
  VC_CHECK("row average: one entry per row", ravg->size == VC_M);
  VC_CHECK("covariance is columns x columns", cov->row == VC_N && cov->col == VC_N);
  double ssq_all = 0;
  for(size_t j = 0; j < VC_N; j++) {
    double s = 0, q = 0;
    for(size_t i = 0; i < VC_M; i++) {
      s += cell[i][j];
      q += cell[i][j] * cell[i][j];
    }
    double a = s / (double)VC_M;
    VC_CHECK("MatrixColAverage[j] == sum_i m[i][j] / rows", avg->data[j] == a);
    double h_rms = sqrt(q / (double)VC_M);
    VC_CHECK("MatrixColRMS[j] == sqrt(sum_i m[i][j]^2 / rows)", VC_SAME(rms->data[j], h_rms));
    if(POW2(VC_M - 1)) {
      double v = 0;
      for(size_t i = 0; i < VC_M; i++)
        v += (cell[i][j] - a) * (cell[i][j] - a);
      v = v / (double)(VC_M - 1);
      VC_CHECK("MatrixColVar[j] == sum_i (m[i][j] - mean_j)^2 / (rows - 1)", var->data[j] == v);
      double h_sd = sqrt(v);
      VC_CHECK("MatrixColSDEV[j] == sqrt(sample variance of column j)", VC_SAME(sd->data[j], h_sd));
      VC_CHECK("covariance diagonal == sample variance of the column", cov->data[j][j] == v);
    }
    for(size_t k = 0; k < VC_N; k++)
      VC_CHECK("covariance is symmetric", cov->data[j][k] == cov->data[k][j]);
  }
  for(size_t i = 0; i < VC_M; i++) {
    double s = 0;
    for(size_t j = 0; j < VC_N; j++) {
      s += cell[i][j];
      ssq_all += cell[i][j] * cell[i][j];
    }
    VC_CHECK("MatrixRowAverage[i] == sum_j m[i][j] / columns", ravg->data[i] == s / (double)VC_N);
  }
  double h_nrm = sqrt(ssq_all);
  VC_CHECK("Matrixnorm == sqrt(sum of squared cells)", VC_SAME(nrm, h_nrm));
  VC_REACH();
}
/* the same column statistics with one missing-coded row: the statistics are those of the remaining rows
 * (VC_M rows, row VC_MISSROW missing-coded in every column; VC_M - 1 must be 2 for exact instances) */
#ifndef VC_MISSROW
#define VC_MISSROW 0
#endif
void h_col_statistics_missing(void)
{
  matrix *m;
  dvector *avg, *var, *sd, *rms;
  double cell[GMAX][GMAX];
  NewMatrix(&m, VC_M, VC_N);
  for(size_t i = 0; i < VC_M; i++)
    for(size_t j = 0; j < VC_N; j++)
      cell[i][j] = m->data[i][j] = (i == VC_MISSROW) ? (double)MISSING : small_cell();
  initDVector(&avg); initDVector(&var); initDVector(&sd); initDVector(&rms);
  MatrixColAverage(m, avg);
  MatrixColVar(m, var);
  MatrixColSDEV(m, sd);
  MatrixColRMS(m, rms);
  VC_CHECK("column statistics: one entry per column", avg->size == VC_N && var->size == VC_N && sd->size == VC_N && rms->size == VC_N);
  const double n = (double)(VC_M - 1); /* rows that are not missing-coded */
  for(size_t j = 0; j < VC_N; j++) {
    double s = 0, q = 0, v = 0;
    for(size_t i = 0; i < VC_M; i++)
      if(i != VC_MISSROW) {
        s += cell[i][j];
        q += cell[i][j] * cell[i][j];
      }
    double a = s / n;
    for(size_t i = 0; i < VC_M; i++)
      if(i != VC_MISSROW)
        v += (cell[i][j] - a) * (cell[i][j] - a);
    v = v / (n - 1);
    VC_CHECK("MatrixColAverage ignores missing-coded cells: sum / count of the others", avg->data[j] == a);
    VC_CHECK("MatrixColVar ignores missing-coded cells: sum (x - mean)^2 / (count - 1) over the others", var->data[j] == v);
    double h_sd = sqrt(v), h_rms = sqrt(q / n);
    VC_CHECK("MatrixColSDEV ignores missing-coded cells", VC_SAME(sd->data[j], h_sd));
    VC_CHECK("MatrixColRMS ignores missing-coded cells", VC_SAME(rms->data[j], h_rms));
  }
  VC_REACH();
}
#endif
