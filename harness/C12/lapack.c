/* C12: the LAPACK wrappers of matrix.c on their real bodies, with LAPACK replaced (verifier build) by its documented
 * interface contract: argument checks (leading dimensions, workspace) and writes of arbitrary values to exactly the
 * documented extents of the output arrays.  Decided: every read/write of the packed arrays is in bounds (pointer checks),
 * the factors have shapes that multiply back to an m x n matrix, for square AND rectangular inputs in both
 * orientations; inverse / eigen wrappers for square inputs. */
#include "vc.h"
#include "matrix.h"
#include "vector.h"
#ifndef VC_M
#define VC_M 3
#endif
#ifndef VC_N
#define VC_N 2
#endif
#ifdef VC_CBMC
double nondet_vc_f64(void);
int nondet_vc_int(void);
#define MINI(a, b) ((a) < (b) ? (a) : (b))
void dgesdd_(char *jobz, int *m, int *n, double *a, int *lda, double *s, double *u, int *ldu, double *vt, int *ldvt,
             double *work, int *lwork, int *iwork, int *info)
{
  int k = MINI(*m, *n);
  __CPROVER_assert(jobz[0] == 'S' || jobz[0] == 'A' || jobz[0] == 'N' || jobz[0] == 'O', "LAPACK dgesdd: JOBZ is one of N/O/S/A");
  __CPROVER_assert(*lda >= (*m > 1 ? *m : 1), "LAPACK dgesdd: LDA >= max(1,M)");
  __CPROVER_assert(*ldu >= *m, "LAPACK dgesdd: LDU >= M");
  __CPROVER_assert(*ldvt >= (jobz[0] == 'A' ? *n : k), "LAPACK dgesdd: LDVT >= min(M,N) for JOBZ='S'");
  if(*lwork == -1) {       /* workspace query */
    int w = nondet_vc_int();
    __CPROVER_assume(w >= 1 && w <= 64);
    work[0] = (double)w;
    *info = 0;
    return;
  }
  __CPROVER_assert(*lwork >= 1, "LAPACK dgesdd: LWORK >= 1");
  __CPROVER_assume(work != NULL); /* SVDlapack takes its workspace from an unchecked malloc: allocation failure is outside C12 */
  for(int i = 0; i < k; i++) s[i] = nondet_vc_f64();
  int ucols = jobz[0] == 'A' ? *m : k, vrows = jobz[0] == 'A' ? *n : k;
  for(int j = 0; j < ucols; j++) for(int i = 0; i < *m; i++) u[i + j * *ldu] = nondet_vc_f64();
  for(int j = 0; j < *n; j++) for(int i = 0; i < vrows; i++) vt[i + j * *ldvt] = nondet_vc_f64();
  for(int j = 0; j < *n; j++) for(int i = 0; i < *m; i++) a[i + j * *lda] = nondet_vc_f64();
  for(int i = 0; i < 8 * k; i++) iwork[i] = nondet_vc_int();
  work[0] = nondet_vc_f64();
  *info = 0;   /* successful decomposition (on INFO > 0 the wrapper reports the failure and leaves its outputs untouched) */
}
void dgetrf_(int *M, int *N, double *A, int *lda, int *IPIV, int *INFO)
{
  __CPROVER_assert(*lda >= (*M > 1 ? *M : 1), "LAPACK dgetrf: LDA >= max(1,M)");
  for(int j = 0; j < *N; j++) for(int i = 0; i < *M; i++) A[i + j * *lda] = nondet_vc_f64();
  for(int i = 0; i < MINI(*M, *N); i++) IPIV[i] = nondet_vc_int();
  *INFO = 0;
}
void dgetri_(int *N, double *A, int *lda, int *IPIV, double *WORK, int *lwork, int *INFO)
{
  __CPROVER_assert(*lda >= (*N > 1 ? *N : 1), "LAPACK dgetri: LDA >= max(1,N)");
  __CPROVER_assert(*lwork >= (*N > 1 ? *N : 1), "LAPACK dgetri: LWORK >= max(1,N)");
  for(int j = 0; j < *N; j++) for(int i = 0; i < *N; i++) A[i + j * *lda] = nondet_vc_f64();
  for(int i = 0; i < *N; i++) (void)IPIV[i];
  WORK[0] = nondet_vc_f64();
  *INFO = 0;
}
void dgeev_(char *jobvl, char *jobvr, int *n, double *a, int *lda, double *wr, double *wi, double *vl, int *ldvl,
            double *vr, int *ldvr, double *work, int *lwork, int *info)
{
  __CPROVER_assert(*lda >= (*n > 1 ? *n : 1) && *ldvl >= 1 && *ldvr >= (jobvr[0] == 'V' ? *n : 1), "LAPACK dgeev: leading dimensions");
  if(*lwork == -1) {
    int w = nondet_vc_int();
    __CPROVER_assume(w >= 1 && w <= 64);
    work[0] = (double)w;
    *info = 0;
    return;
  }
  __CPROVER_assert(*lwork >= 1, "LAPACK dgeev: LWORK >= 1");
  for(int i = 0; i < *n; i++) { wr[i] = nondet_vc_f64(); wi[i] = nondet_vc_f64(); }
  if(jobvr[0] == 'V')
    for(int j = 0; j < *n; j++) for(int i = 0; i < *n; i++) vr[i + j * *ldvr] = nondet_vc_f64();
  if(jobvl[0] == 'V')
    for(int j = 0; j < *n; j++) for(int i = 0; i < *n; i++) vl[i + j * *ldvl] = nondet_vc_f64();
  work[0] = nondet_vc_f64();
  *info = 0;
}
#endif

static matrix *in_matrix(size_t r, size_t c)
{
  matrix *m;
  NewMatrix(&m, r, c);
  for(size_t i = 0; i < r; i++)
    for(size_t j = 0; j < c; j++) {
      double v = VC_IN_DBL();
      VC_ASSUME(v > -1e3 && v < 1e3);
      m->data[i][j] = v;
      VC_NATIVE_ONLY(m->data[i][j] = (double)((i * 7 + j * 3) % 5) + 1.0 + (i == j ? 4.0 : 0.0);) /* well-conditioned values for the real LAPACK */
    }
  return m;
}

void h_SVDlapack(void)
{
  matrix *m = in_matrix(VC_M, VC_N), *u, *s, *vt;
  initMatrix(&u); initMatrix(&s); initMatrix(&vt);
  SVDlapack(m, u, s, vt);
  VC_CHECK("SVD factors have shapes that multiply back to an m x n matrix (u: m x k, s: k x k, vt: k x n)",
           u->row == VC_M && vt->col == VC_N && u->col == s->row && s->col == vt->row);
  VC_REACH();
}

void h_MatrixLUInversion(void)
{
  matrix *m = in_matrix(VC_M, VC_M), *inv;
  initMatrix(&inv);
  MatrixLUInversion(m, inv);
  VC_CHECK("LU inverse has the shape of the input", inv->row == VC_M && inv->col == VC_M);
  VC_REACH();
}

void h_EVectEval(void)
{
  matrix *m = in_matrix(VC_M, VC_M), *ev;
  dvector *val;
  initMatrix(&ev); initDVector(&val);
  EVectEval(m, val, ev);
  VC_CHECK("eigen-decomposition returns n values and an n x n vector table", val->size == VC_M && ev->row == VC_M && ev->col == VC_M);
  VC_REACH();
}

/* Gauss-Jordan inverse: a non-singular matrix whose leading entry is zero needs a row exchange.  2x2 instance
 * [[0,b],[c,d]] with b, c in [1,2] (determinant -b*c, condition number small): every cell of the inverse must be finite. */
void h_MatrixInversion_pivot(void)
{
  matrix *m, *inv;
  NewMatrix(&m, 2, 2); initMatrix(&inv);
  double b = VC_IN_DBL(), c = VC_IN_DBL(), d = VC_IN_DBL();
  VC_ASSUME(b >= 1.0 && b <= 2.0 && c >= 1.0 && c <= 2.0 && d >= -1.0 && d <= 1.0);
  m->data[0][0] = 0.0; m->data[0][1] = b; m->data[1][0] = c; m->data[1][1] = d;
  MatrixInversion(m, inv);
  VC_CHECK("inverse has the input's shape", inv->row == 2 && inv->col == 2);
  for(size_t i = 0; i < 2; i++)
    for(size_t j = 0; j < 2; j++)
      VC_CHECK("inverse of a well-conditioned matrix with a zero leading entry is finite (pivoting required)", inv->data[i][j] == inv->data[i][j] && inv->data[i][j] - inv->data[i][j] == 0.0);
  VC_REACH();
}

/* Gauss-Jordan inverse on exact instances: scaled permutation matrices (one non-zero per row and column, each +-1, +-2 or
 * +-1/2, +-4), the "permutation matrices / zero leading minors" class of the property.  Every elimination step is exact, so
 * any correct algorithm returns exactly inv[j][i] = 1 / m[i][j] on the pattern and 0 elsewhere, i.e. M * inv = I exactly. */
#ifndef VC_DIM
#define VC_DIM 3
#endif
#ifndef VC_PERMIDX
#define VC_PERMIDX 0
#endif
void h_MatrixInversion_permutation(void)
{
  static const unsigned char P3[6][3] = {{0,1,2},{0,2,1},{1,0,2},{1,2,0},{2,0,1},{2,1,0}};
  matrix *m, *inv;
  double s[4];
  size_t col[4];
  NewMatrix(&m, VC_DIM, VC_DIM); initMatrix(&inv);
  for(size_t i = 0; i < VC_DIM; i++) {
    col[i] = (VC_DIM == 3) ? P3[VC_PERMIDX][i] : (VC_DIM == 2 ? (VC_PERMIDX ? 1 - i : i) : 0);
    uint64_t e = vc_in_u64(), neg = vc_in_u64();
    VC_ASSUME(e <= 3 && neg <= 1);
    double v = (e == 0) ? 0.5 : (e == 1) ? 1.0 : (e == 2) ? 2.0 : 4.0;
    s[i] = neg ? -v : v;
    m->data[i][col[i]] = s[i];
  }
  MatrixInversion(m, inv);
  VC_CHECK("inverse has the input's shape", inv->row == VC_DIM && inv->col == VC_DIM);
  for(size_t i = 0; i < VC_DIM; i++)
    for(size_t j = 0; j < VC_DIM; j++) {
      /* (M * inv)[i][j] = s[i] * inv[col[i]][j] */
      VC_CHECK("M * M^-1 == I exactly for a scaled permutation matrix (row exchanges required)", s[i] * inv->data[col[i]][j] == (i == j ? 1.0 : 0.0));
    }
  for(size_t i = 0; i < VC_DIM; i++)
    VC_CHECK("MatrixInversion does not modify its input", m->data[i][col[i]] == s[i]);
  VC_REACH();
}
