/* C12: the library's own linear-system solver (SolveLSE, Gauss elimination on the augmented matrix) and least-squares
 * solver (OrdinaryLeastSquares) on exact instances.
 *  - SolveLSE: 3x3 (2x2) coefficient matrices with entries 0/1 and determinant +-1, integer right-hand sides 0..3.  All
 *    minors of such a matrix lie in {-2..2} and the pivot-block minors in {+-1}, so every intermediate of any elimination
 *    order is a small dyadic rational and the solution is an integer vector: A*x == b must hold exactly.  The class
 *    contains matrices with zero leading entries and zero leading minors (row exchanges required).
 *  - OrdinaryLeastSquares: design matrices whose columns are scaled unit vectors on distinct rows (X'X diagonal with
 *    power-of-two entries): coefficient j == y[row of column j] / scale j exactly. */
#include "vc.h"
#include "matrix.h"
#include "vector.h"
#include "algebra.h"
#ifndef VC_DIM
#define VC_DIM 3
#endif
#ifndef VC_ROWS
#define VC_ROWS 3
#endif
#ifndef VC_COLS
#define VC_COLS 2
#endif
#ifndef VC_ROWMAP
#define VC_ROWMAP {2, 0}
#endif

void h_SolveLSE(void)
{
  matrix *m;
  dvector *x;
  double A[3][3], b[3];
  NewMatrix(&m, VC_DIM, VC_DIM + 1);
  initDVector(&x);
  for(size_t i = 0; i < VC_DIM; i++) {
    for(size_t j = 0; j < VC_DIM; j++) {
      uint64_t v = vc_in_u64();
      VC_ASSUME(v <= 1);
      A[i][j] = m->data[i][j] = (double)v;
    }
    uint64_t r = vc_in_u64();
    VC_ASSUME(r <= 3);
    b[i] = m->data[i][VC_DIM] = (double)r;
  }
  double det;
  if(VC_DIM == 2)
    det = A[0][0] * A[1][1] - A[0][1] * A[1][0];
  else
    det = A[0][0] * (A[1][1] * A[2][2] - A[1][2] * A[2][1]) - A[0][1] * (A[1][0] * A[2][2] - A[1][2] * A[2][0]) + A[0][2] * (A[1][0] * A[2][1] - A[1][1] * A[2][0]);
  VC_ASSUME(det == 1.0 || det == -1.0); /* non-singular, perfectly conditioned for its size */
  SolveLSE(m, x);
  VC_CHECK("solution has one entry per unknown", x->size == VC_DIM);
  for(size_t i = 0; i < VC_DIM; i++) {
    double s = 0;
    for(size_t j = 0; j < VC_DIM; j++)
      s += A[i][j] * x->data[j];
    VC_CHECK("SolveLSE returns the solution of the stated system: A*x == b (exact instance; zero leading entries / minors included)", s == b[i]);
  }
  for(size_t i = 0; i < VC_DIM; i++)
    for(size_t j = 0; j < VC_DIM; j++)
      VC_CHECK("SolveLSE does not modify the system it is given", m->data[i][j] == A[i][j]);
  VC_REACH();
}

void h_OLS_exact(void)
{
  static const size_t rowof[] = VC_ROWMAP; /* row carrying the non-zero of column j (distinct rows) */
  matrix *X;
  dvector *y, *coef;
  double s[4], yy[6];
  NewMatrix(&X, VC_ROWS, VC_COLS);
  NewDVector(&y, VC_ROWS);
  initDVector(&coef);
  for(size_t j = 0; j < VC_COLS; j++) {
    uint64_t e = vc_in_u64(), neg = vc_in_u64();
    VC_ASSUME(e <= 2 && neg <= 1);
    double v = (e == 0) ? 0.5 : (e == 1) ? 1.0 : 2.0;
    s[j] = neg ? -v : v;
    X->data[rowof[j]][j] = s[j];
  }
  for(size_t i = 0; i < VC_ROWS; i++) {
    uint64_t r = vc_in_u64();
    VC_ASSUME(r <= 3);
    yy[i] = y->data[i] = (double)r;
  }
  OrdinaryLeastSquares(X, y, coef);
  VC_CHECK("one coefficient per column of the design matrix", coef->size == VC_COLS);
  for(size_t j = 0; j < VC_COLS; j++)
    VC_CHECK("least-squares solution of the stated system: coefficient j == y[row of column j] / scale j (exact instance)", coef->data[j] == yy[rowof[j]] / s[j]);
  VC_REACH();
}
