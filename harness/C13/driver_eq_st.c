/* C13: the distance drivers called with a concrete thread count (1, 2, 3, more than rows) equal the single-threaded
 * definition on concrete small shapes with symbolic IEEE cell values.  pthread_create is intercepted and runs the
 * worker synchronously.  Both sides perform the same IEEE operations in the same order, so equality is bitwise. */
#include "vc.h"
#include <pthread.h>
#include "matrix.h"
#include "vector.h"
#ifndef VC_R1
#define VC_R1 3
#endif
#ifndef VC_R2
#define VC_R2 2
#endif
#ifndef VC_C
#define VC_C 1
#endif
#ifndef VC_NTH
#define VC_NTH 1
#endif
#ifndef VC_METHOD
#define VC_METHOD 1
#endif
static size_t started;
static int vc_run_create(pthread_t *t, const pthread_attr_t *a, void *(*fn)(void *), void *arg)
{
  (void)t; (void)a;
  started++;
  fn(arg);
  return 0;
}
static int vc_run_join(pthread_t t, void **r) { (void)t; (void)r; return 0; }
#define pthread_create vc_run_create
#define pthread_join vc_run_join
#define pthread_exit(x) ((void)0)
#include "metricspace.c"

static matrix *in_matrix(size_t r, size_t c)
{
  matrix *m;
  NewMatrix(&m, r, c);
  for(size_t i = 0; i < r; i++)
    for(size_t j = 0; j < c; j++)
      m->data[i][j] = VC_IN_DBL();
  return m;
}

void h_CalculateDistance_eq_ST(void)
{
  matrix *m1 = in_matrix(VC_R1, VC_C), *m2 = in_matrix(VC_R2, VC_C), *d, *ref;
  initMatrix(&d);
  initMatrix(&ref);
  CalculateDistance(m1, m2, d, VC_NTH, (enum cmethod)VC_METHOD);
  if(VC_METHOD == 1)
    SquaredEuclideanDistance_ST(m1, m2, ref);
  else
    ManhattanDistance_ST(m1, m2, ref);
  VC_CHECK("MT distance matrix has the ST shape (m2->row x m1->row)", d->row == VC_R2 && d->col == VC_R1 && ref->row == VC_R2 && ref->col == VC_R1);
  for(size_t k = 0; k < VC_R2; k++)
    for(size_t i = 0; i < VC_R1; i++)
      VC_CHECK("MT distance cell equals the single-threaded cell", VC_SAME(d->data[k][i], ref->data[k][i]));
  VC_REACH();
}

void h_Condensed_eq_square(void)
{
  matrix *m = in_matrix(VC_R1, VC_C), *ref;
  dvector *cd;
  initMatrix(&ref);
  initDVector(&cd);
  if(VC_METHOD == 1) {
    SquaredEuclideanDistanceCondensed(m, cd, VC_NTH);
    SquaredEuclideanDistance_ST(m, m, ref);
  } else {
    ManhattanDistanceCondensed(m, cd, VC_NTH);
    ManhattanDistance_ST(m, m, ref);
  }
  VC_CHECK("condensed vector holds n(n-1)/2 cells", cd->size == (size_t)VC_R1 * (VC_R1 > 0 ? VC_R1 - 1 : 0) / 2);
  size_t pos = 0;
  for(size_t i = 0; i < VC_R1; i++)
    for(size_t j = i + 1; j < VC_R1; j++) {
      VC_CHECK("condensed cell equals the square-form cell (i,j)", VC_SAME(cd->data[pos], ref->data[j][i]));
      pos++;
    }
  VC_REACH();
}
