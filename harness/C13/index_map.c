/* C13: the documented condensed index map k(i,j,n) = n*j - j(j+1)/2 + i - 1 - j (i>j) is a bijection from the strict
 * upper triangle onto [0, n(n-1)/2): proved for n symbolic <= VC_NMAX as range + symmetry + first + successor + last
 * (strictly increasing by 1 along the row-major enumeration => bijection).  Loop-free, complete for the stated n. */
#include "vc.h"
#include "metricspace.h"
#ifndef VC_NMAX
#define VC_NMAX 64
#endif
void h_index_map(void)
{
  size_t n = VC_IN_SIZE(), i = VC_IN_SIZE(), j = VC_IN_SIZE();
  VC_ASSUME(n >= 2 && n <= VC_NMAX && i < j && j < n);
  size_t k = square_to_condensed_index(i, j, n);
  size_t total = n * (n - 1) / 2;
  VC_CHECK("index in range [0, n(n-1)/2)", k < total);
  VC_CHECK("index map symmetric in (i,j)", square_to_condensed_index(j, i, n) == k);
  VC_CHECK("first pair (0,1) maps to 0", square_to_condensed_index(0, 1, n) == 0);
  VC_CHECK("last pair (n-2,n-1) maps to n(n-1)/2 - 1", square_to_condensed_index(n - 2, n - 1, n) == total - 1);
  /* successor in row-major order of the strict upper triangle */
  if(j + 1 < n)
    VC_CHECK("next pair in the same row maps to k+1", square_to_condensed_index(i, j + 1, n) == k + 1);
  else if(i + 2 < n)
    VC_CHECK("first pair of the next row maps to k+1", square_to_condensed_index(i + 1, i + 2, n) == k + 1);
  VC_CHECK("diagonal is reported out of range (n+1 sentinel)", square_to_condensed_index(i, i, n) == n + 1);
  VC_REACH();
}
