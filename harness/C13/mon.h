/* mon.h - pthread monitor (assumed contract of pthread_create/pthread_join for the slicing obligations):
 * the real slicing loops run unchanged; every pthread_create is intercepted (macro redefinition before the
 * source file is included) and the slice handed to the worker is checked against the partition contract:
 *   consecutive (slice k starts where slice k-1 ended), ordered (from <= to), inside [0, rows];
 * after the call: the last slice ends at rows and exactly nthreads workers were started.
 * Consecutive + first starts at 0 + last ends at rows  ==> every row belongs to exactly one worker. */
#ifndef VC_MON_H
#define VC_MON_H
#include <pthread.h>
static size_t mon_next, mon_rows, mon_count;
static int mon_bad;
static void mon_reset(size_t rows)
{
  mon_next = 0;
  mon_rows = rows;
  mon_count = 0;
  mon_bad = 0;
}
static void mon_slice(size_t from, size_t to)
{
  VC_CHECK("slice starts where the previous one ended (first at 0)", from == mon_next);
  VC_CHECK("slice is ordered: from <= to", from <= to);
  VC_CHECK("slice ends inside the data: to <= rows", to <= mon_rows);
  mon_next = to;
  mon_count++;
}
static void mon_finish(size_t nthreads)
{
  VC_CHECK("all rows covered: last slice ends at rows", mon_next == mon_rows);
  VC_CHECK("one worker per requested thread", mon_count == nthreads);
}
static void mon_decode(void *(*fn)(void *), void *arg);
static int vc_pthread_create(pthread_t *t, const pthread_attr_t *a, void *(*fn)(void *), void *arg)
{
  (void)t; (void)a;
  mon_decode(fn, arg);
  return 0;
}
static int vc_pthread_join(pthread_t t, void **r)
{
  (void)t; (void)r;
  return 0;
}
#define pthread_create vc_pthread_create
#define pthread_join vc_pthread_join
#define pthread_exit(x) ((void)0)
#endif
