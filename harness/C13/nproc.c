/* C13: GetNProcessor (memwrapper.c, real body) never reports fewer than one processor, whatever sysconf returns
 * (including the error value -1); loop-free, complete for all return values of sysconf. */
#include "vc.h"
#include <unistd.h>
static long vc_sysconf(int name) { (void)name; long v = (long)(int64_t)vc_in_u64(); return v; }
#define sysconf vc_sysconf
#include "memwrapper.c"

void h_GetNProcessor(void)
{
  size_t on = 0, mx = 0;
  size_t which = VC_IN_SIZE();
  GetNProcessor((which & 1) ? &on : NULL, (which & 2) ? &mx : NULL);
  VC_CHECK("GetNProcessor: at least one processor online is reported", !(which & 1) || on >= 1);
  VC_CHECK("GetNProcessor: at least one configured processor is reported", !(which & 2) || mx >= 1);
  VC_REACH();
}
