/* C13: slicing of getLabels_ (k-means labelling), real loop, rows symbolic, thread count symbolic 2..VC_T (count one: bounded driver==ST jobs) */
#include "vc.h"
#include "mon.h"
#ifndef VC_T
#define VC_T 8
#endif
#ifndef VC_T_LO
#define VC_T_LO 2 /* lowest thread count of this instance (VC_T_LO == VC_T: one concrete count) */
#endif
#ifndef VC_MAXROWS
#define VC_MAXROWS ((size_t)1 << 20)
#endif
#include "clustering.c"

static void mon_decode(void *(*fn)(void *), void *arg)
{
  VC_CHECK("worker entry is the labelling worker", fn == getLabelsWorker);
  labels_th_arg *a = (labels_th_arg *)arg;
  VC_CHECK("slice bounds are non-negative", a->from >= 0 && a->to >= 0);
  mon_slice((size_t)a->from, (size_t)a->to);
}

void h_slice_getLabels_(void)
{
  size_t r = VC_IN_SIZE(), cols = VC_IN_SIZE(), nth = VC_IN_SIZE();
  VC_ASSUME(r <= VC_MAXROWS && cols <= VC_MAXROWS && nth >= VC_T_LO && nth <= VC_T);
  matrix m, c; uivector l;
  m.row = r; m.col = cols; m.data = NULL;
  c.row = 1; c.col = cols; c.data = NULL;
  l.size = r; l.data = NULL;
  mon_reset(r);
  getLabels_(&m, &c, &l, (int)nth);
  mon_finish(nth);
  VC_REACH();
}
