/* C13: slicing of the distance pass of KMeansppCenters (real loop, embedded in the seeding loop), concrete small row and
 * thread counts (the outer loop is data dependent, so rows cannot stay symbolic here).  The generator is an oracle that
 * makes the first candidate acceptable, so exactly one seeding round runs; the worker is intercepted by the monitor,
 * which also plays its contract (writes the distance of every row of its slice). */
#include "vc.h"
#include "mon.h"
#ifndef VC_ROWS
#define VC_ROWS 3
#endif
#ifndef VC_NTH
#define VC_NTH 2
#endif
static int vc_randInt(int lo, int hi) { (void)lo; return hi > 1 ? 1 : 0; }
static double vc_randDouble(double lo, double hi) { (void)lo; return hi; }
#define randInt vc_randInt
#define randDouble vc_randDouble
#include "clustering.c"

static void mon_decode(void *(*fn)(void *), void *arg)
{
  VC_CHECK("worker entry is the k-means++ distance worker", fn == kmppDistanceWorker);
  kmpp_th_args *a = (kmpp_th_args *)arg;
  mon_slice(a->from, a->to);
  for(size_t i = a->from; i < a->to && i < a->D->size; i++)
    a->D->data[i] = 1.0;           /* worker contract: the distance of every row of its slice */
}

void h_slice_KMeansppCenters(void)
{
  matrix *m;
  uivector *sel;
  NewMatrix(&m, VC_ROWS, 1);
  initUIVector(&sel);
  mon_reset(VC_ROWS);
  KMeansppCenters(m, 2, sel, VC_NTH);
  mon_finish(VC_NTH);
  VC_CHECK("k-means++: two distinct in-range seeds", sel->size == 2 && sel->data[0] < VC_ROWS && sel->data[1] < VC_ROWS && sel->data[0] != sel->data[1]);
  VC_REACH();
}
