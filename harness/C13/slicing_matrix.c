/* C13: slicing of MT_MatrixDVectorDotProduct / MT_DVectorMatrixDotProduct (real loops, incl. the
 * ceil((double)rows/(double)nthreads) step), rows symbolic <= VC_MAXROWS, detected thread count symbolic 2..VC_T */
#include "vc.h"
#include "mon.h"
#ifndef VC_T
#define VC_T 8
#endif
#ifndef VC_T_LO
#define VC_T_LO 2 /* lowest thread count of this instance (VC_T_LO == VC_T: one concrete count) */
#endif
#ifndef VC_MAXROWS
#define VC_MAXROWS ((size_t)1 << 20)
#endif
static size_t vc_nproc;
static void vc_GetNProcessor(size_t *online, size_t *max)
{
  if(online) *online = vc_nproc;
  if(max) *max = vc_nproc;
}
#define GetNProcessor vc_GetNProcessor
#include "matrix.c"

static void mon_decode(void *(*fn)(void *), void *arg)
{
  tharg *a = (tharg *)arg;
  VC_CHECK("worker entry is the kernel's worker", fn == MatrixDVectorDotProductWorker || fn == DVectorMatrixDotProductWorker);
  mon_slice(a->from, a->to);
}

void h_slice_MT_MatrixDVectorDotProduct(void)
{
  size_t rows = VC_IN_SIZE(), cols = VC_IN_SIZE();
  vc_nproc = VC_IN_SIZE();
  VC_ASSUME(rows <= VC_MAXROWS && cols <= VC_MAXROWS && vc_nproc >= VC_T_LO && vc_nproc <= VC_T);
  matrix m; dvector v, p;
  m.row = rows; m.col = cols; m.data = NULL;     /* never dereferenced: workers are intercepted */
  v.size = cols; v.data = NULL;
  p.size = rows; p.data = NULL;
  mon_reset(rows);
  MT_MatrixDVectorDotProduct(&m, &v, &p);
  mon_finish(vc_nproc);
  VC_REACH();
}

void h_slice_MT_DVectorMatrixDotProduct(void)
{
  size_t rows = VC_IN_SIZE(), cols = VC_IN_SIZE();
  vc_nproc = VC_IN_SIZE();
  VC_ASSUME(rows <= VC_MAXROWS && cols <= VC_MAXROWS && vc_nproc >= VC_T_LO && vc_nproc <= VC_T);
  matrix m; dvector v, p;
  m.row = rows; m.col = cols; m.data = NULL;
  v.size = rows; v.data = NULL;
  p.size = cols; p.data = NULL;
  mon_reset(cols);                                /* this kernel slices the columns */
  MT_DVectorMatrixDotProduct(&m, &v, &p);
  mon_finish(vc_nproc);
  VC_REACH();
}
