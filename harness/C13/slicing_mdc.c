/* C13: slicing of the distance pass of MDC() (real loop, embedded in the data-dependent selection loop), concrete small
 * row and thread counts, two selection rounds.  The distance matrix driver and the row sort enter by contract (oracle
 * values / identity permutation); the worker is intercepted by the monitor, which also plays its contract (writes the
 * (distance, row id) pair of every row of its slice).  Each round must hand every row to exactly one worker. */
#include "vc.h"
#include "mon.h"
#ifndef VC_ROWS
#define VC_ROWS 3
#endif
#ifndef VC_NTH
#define VC_NTH 2
#endif
#include "matrix.h"
#include "metricspace.h"
static void vc_CalculateDistance(matrix *m1, matrix *m2, matrix *dm, size_t nthreads, enum cmethod t)
{
  (void)m1; (void)m2; (void)nthreads; (void)t;
  for(size_t i = 0; i < dm->row; i++)
    for(size_t j = 0; j < dm->col; j++)
      dm->data[i][j] = (double)(i > j ? i - j : j - i);
}
static void vc_MatrixSort(matrix *m, size_t col) { (void)m; (void)col; }
#define CalculateDistance vc_CalculateDistance
#define MatrixSort vc_MatrixSort
#include "clustering.c"

static size_t rounds;
static void mon_decode(void *(*fn)(void *), void *arg)
{
  VC_CHECK("worker entry is the MDC distance worker", fn == MDCWorker);
  mdc_th_args *a = (mdc_th_args *)arg;
  if(mon_count > 0 && mon_count % VC_NTH == 0) {
    /* a new selection round starts: the previous one must have covered every row */
    VC_CHECK("all rows covered in the previous round: last slice ended at rows", mon_next == mon_rows);
    mon_next = 0;
    rounds++;
  }
  VC_CHECK("worker is given the object selected in this round", a->mdc < VC_ROWS);
  mon_slice(a->from, a->to);
  for(size_t k = a->from; k < a->to && k < a->tmprank->row; k++) {
    a->tmprank->data[k][0] = 1.0; /* worker contract: (distance, row id) of every row of its slice */
    a->tmprank->data[k][1] = (double)k;
  }
}

void h_slice_MDC(void)
{
  matrix *m;
  uivector *sel;
  NewMatrix(&m, VC_ROWS, 1);
  initUIVector(&sel);
  mon_reset(VC_ROWS);
  rounds = 0;
  MDC(m, 2, 0, sel, VC_NTH);
  VC_CHECK("all rows covered: last slice ends at rows", mon_next == mon_rows);
  VC_CHECK("one worker per requested thread in each of the two rounds", mon_count == 2 * (size_t)VC_NTH && rounds == 1);
  VC_CHECK("MDC: two in-range selections", sel->size == 2 && sel->data[0] < VC_ROWS && sel->data[1] < VC_ROWS);
  VC_REACH();
}
