/* C13: slicing of CalculateDistance and the four condensed distance drivers (real loops), rows symbolic,
 * requested thread count symbolic 2..VC_T (count one: bounded driver==ST jobs).  ResizeMatrix / DVectorResize enter by contract (shape only). */
#include "vc.h"
#include "mon.h"
#include "matrix.h"
#include "vector.h"
#ifndef VC_T
#define VC_T 8
#endif
#ifndef VC_T_LO
#define VC_T_LO 2 /* lowest thread count of this instance (VC_T_LO == VC_T: one concrete count) */
#endif
#ifndef VC_MAXROWS
#define VC_MAXROWS ((size_t)1 << 20)
#endif
static size_t rs_rows, rs_cols, rs_calls, dv_size, dv_calls;
static void vc_ResizeMatrix(matrix *m, size_t r, size_t c) { m->row = r; m->col = c; rs_rows = r; rs_cols = c; rs_calls++; }
static void vc_DVectorResize(dvector *d, size_t n) { d->size = n; dv_size = n; dv_calls++; }
#define ResizeMatrix vc_ResizeMatrix
#define DVectorResize vc_DVectorResize
#include "metricspace.c"

static void mon_decode(void *(*fn)(void *), void *arg)
{
  if(fn == CalcWorker) {
    dst_th_arg *a = (dst_th_arg *)arg;
    mon_slice(a->r_from, a->r_to);
  } else {
    VC_CHECK("worker entry is a distance worker", fn == CalcCondensedWorker);
    cdst_th_arg *a = (cdst_th_arg *)arg;
    mon_slice(a->r_from, a->r_to);
  }
}

void h_slice_CalculateDistance(void)
{
  size_t r1 = VC_IN_SIZE(), r2 = VC_IN_SIZE(), cols = VC_IN_SIZE(), nth = VC_IN_SIZE(), method = VC_IN_SIZE();
  VC_ASSUME(r1 <= VC_MAXROWS && r2 <= VC_MAXROWS && cols <= VC_MAXROWS && nth >= VC_T_LO && nth <= VC_T && method <= 3);
  matrix m1, m2, d;
  m1.row = r1; m1.col = cols; m1.data = NULL;
  m2.row = r2; m2.col = cols; m2.data = NULL;
  d.row = 0; d.col = 0; d.data = NULL;
  mon_reset(r1);
  CalculateDistance(&m1, &m2, &d, nth, (enum cmethod)method);
  mon_finish(nth);
  VC_CHECK("distance matrix is m2->row x m1->row", rs_calls == 1 && rs_rows == r2 && rs_cols == r1);
  VC_REACH();
}

#define CONDENSED(F)                                                                    \
  void h_slice_##F(void)                                                                \
  {                                                                                     \
    size_t r = VC_IN_SIZE(), cols = VC_IN_SIZE(), nth = VC_IN_SIZE();                   \
    VC_ASSUME(r <= VC_MAXROWS && cols <= VC_MAXROWS && nth >= VC_T_LO && nth <= VC_T);        \
    matrix m; dvector d;                                                                \
    m.row = r; m.col = cols; m.data = NULL;                                             \
    d.size = 0; d.data = NULL;                                                          \
    mon_reset(r);                                                                       \
    F(&m, &d, nth);                                                                     \
    mon_finish(nth);                                                                    \
    VC_CHECK("condensed vector resized once", dv_calls == 1);                           \
    VC_REACH();                                                                         \
  }
CONDENSED(EuclideanDistanceCondensed)
CONDENSED(SquaredEuclideanDistanceCondensed)
CONDENSED(ManhattanDistanceCondensed)
CONDENSED(CosineDistanceCondensed)
