/* C13: for EVERY split of the rows into three consecutive slices (split points enumerated, slices executed out of
 * order), the workers' combined result equals the single-threaded kernel, and nothing outside a worker's slice is
 * written.  Concrete small shapes, cell values symbolic in the ring Z/256 (exact arithmetic).  Together with the
 * slicing obligations (the drivers produce consecutive slices covering all rows) this gives MT == ST. */
#include "vc.h"
#include <pthread.h>
#include "matrix.h"
#include "vector.h"
#ifndef VC_R1
#define VC_R1 3
#endif
#ifndef VC_R2
#define VC_R2 2
#endif
#ifndef VC_C
#define VC_C 2
#endif
#ifndef VC_A
#define VC_A 1
#endif
#ifndef VC_B
#define VC_B 2
#endif
#define pthread_exit(x) ((void)0)
#ifdef VC_UNIT_MATRIX
#include "matrix.c"
#else
#include "metricspace.c"
#endif

#ifdef VC_RING
#define IN_CELL() ((double)(int8_t)vc_in_u64())
#else
#define IN_CELL() VC_IN_DBL()
#endif

static matrix *in_matrix(size_t r, size_t c)
{
  matrix *m;
  NewMatrix(&m, r, c);
  for(size_t i = 0; i < r; i++)
    for(size_t j = 0; j < c; j++)
      m->data[i][j] = IN_CELL();
  return m;
}
static dvector *in_dvector(size_t n)
{
  dvector *d;
  NewDVector(&d, n);
  for(size_t i = 0; i < n; i++)
    d->data[i] = IN_CELL();
  return d;
}

#ifndef VC_UNIT_MATRIX
void h_CalcWorker_eq_ST(void)
{
  matrix *m1 = in_matrix(VC_R1, VC_C), *m2 = in_matrix(VC_R2, VC_C), *d, *ref;
  size_t a = VC_A, b = VC_B; /* split points: enumerated by the orchestrator */
  NewMatrix(&d, VC_R2, VC_R1);
  initMatrix(&ref);
  double canary = IN_CELL();
  MatrixSet(d, canary);
  dst_th_arg s[3];
  size_t lo[3] = {0, a, b}, hi[3] = {a, b, VC_R1};
  for(int k = 0; k < 3; k++) {
    s[k].m1 = m1; s[k].m2 = m2; s[k].distances = d; s[k].condensed_distances = NULL;
    s[k].r_from = lo[k]; s[k].r_to = hi[k]; s[k].method = SQUARE_EUCLIDEAN;
  }
  CalcWorker(&s[1]);
  for(size_t k = 0; k < VC_R2; k++)
    for(size_t i = 0; i < VC_R1; i++)
      if(i < a || i >= b)
        VC_CHECK("worker writes only the columns of its own slice", d->data[k][i] == canary);
  CalcWorker(&s[2]);
  CalcWorker(&s[0]);
  SquaredEuclideanDistance_ST(m1, m2, ref);
  for(size_t k = 0; k < VC_R2; k++)
    for(size_t i = 0; i < VC_R1; i++)
      VC_CHECK("workers over any consecutive split == single-threaded distance matrix", d->data[k][i] == ref->data[k][i]);
  VC_REACH();
}

void h_CalcCondensedWorker_eq_square(void)
{
  matrix *m = in_matrix(VC_R1, VC_C), *ref;
  dvector *cd;
  size_t a = VC_A, b = VC_B; /* split points: enumerated by the orchestrator */
  NewDVector(&cd, (size_t)VC_R1 * (VC_R1 > 0 ? VC_R1 - 1 : 0) / 2);
  initMatrix(&ref);
  cdst_th_arg s[3];
  size_t lo[3] = {0, a, b}, hi[3] = {a, b, VC_R1};
  for(int k = 0; k < 3; k++) {
    s[k].m = m; s[k].distances = cd; s[k].r_from = lo[k]; s[k].r_to = hi[k]; s[k].method = SQUARE_EUCLIDEAN;
  }
  CalcCondensedWorker(&s[2]);
  CalcCondensedWorker(&s[0]);
  CalcCondensedWorker(&s[1]);
  SquaredEuclideanDistance_ST(m, m, ref);
  size_t pos = 0;
  for(size_t i = 0; i < VC_R1; i++)
    for(size_t j = i + 1; j < VC_R1; j++) {
      VC_CHECK("index map sends (i,j) to its row-major upper-triangle position", square_to_condensed_index(i, j, VC_R1) == pos);
      VC_CHECK("index map is symmetric", square_to_condensed_index(j, i, VC_R1) == pos);
      VC_CHECK("condensed cell == square-form cell (i,j), for any consecutive split", cd->data[pos] == ref->data[j][i]);
      VC_CHECK("square form is symmetric", ref->data[j][i] == ref->data[i][j]);
      pos++;
    }
  VC_CHECK("condensed length n(n-1)/2 is exactly the number of pairs", pos == cd->size);
  for(size_t i = 0; i < VC_R1; i++)
    VC_CHECK("zero self-distance", ref->data[i][i] == 0);
  VC_REACH();
}
#else
void h_MatrixDVectorWorker_eq_ST(void)
{
  matrix *m = in_matrix(VC_R1, VC_C);
  dvector *v = in_dvector(VC_C), *p, *ref;
  size_t a = VC_A, b = VC_B; /* split points: enumerated by the orchestrator */
  NewDVector(&p, VC_R1);
  NewDVector(&ref, VC_R1);   /* zero-initialised output */
  tharg s[3];
  size_t lo[3] = {0, a, b}, hi[3] = {a, b, VC_R1};
  for(int k = 0; k < 3; k++) { s[k].m = m; s[k].v = v; s[k].res = p; s[k].from = lo[k]; s[k].to = hi[k]; }
  MatrixDVectorDotProductWorker(&s[1]);
  MatrixDVectorDotProductWorker(&s[0]);
  MatrixDVectorDotProductWorker(&s[2]);
  MatrixDVectorDotProduct(m, v, ref);
  for(size_t i = 0; i < VC_R1; i++)
    VC_CHECK("M*v workers over any consecutive split == single-threaded product", p->data[i] == ref->data[i]);
  VC_REACH();
}

void h_DVectorMatrixWorker_eq_ST(void)
{
  matrix *m = in_matrix(VC_R1, VC_C);
  dvector *v = in_dvector(VC_R1), *p, *ref;
  size_t a = VC_A, b = VC_B; /* split points: enumerated by the orchestrator */
  NewDVector(&p, VC_C);
  NewDVector(&ref, VC_C);   /* zero-initialised output */
  tharg s[3];
  size_t lo[3] = {0, a, b}, hi[3] = {a, b, VC_C};
  for(int k = 0; k < 3; k++) { s[k].m = m; s[k].v = v; s[k].res = p; s[k].from = lo[k]; s[k].to = hi[k]; }
  DVectorMatrixDotProductWorker(&s[2]);
  DVectorMatrixDotProductWorker(&s[1]);
  DVectorMatrixDotProductWorker(&s[0]);
  DVectorMatrixDotProduct(m, v, ref);
  for(size_t j = 0; j < VC_C; j++)
    VC_CHECK("v'*M workers over any consecutive split == single-threaded product", p->data[j] == ref->data[j]);
  VC_REACH();
}
#endif
