/* C14 Tier A harnesses: dvector operations, size symbolic up to VC_MAXN */
#include "vc.h"
#include "vector.h"
#include "contracts/vector.h"
#ifndef VC_CBMC
size_t vc_k, vc_k2; double vc_g0;
#define VC_MAXN ((size_t)1 << 20)
#endif

void h_NewDVector(void)
{
  dvector *d = NULL;
  size_t n = VC_IN_SIZE();
  VC_ASSUME(n <= VC_MAXN);
  vc_k = VC_IN_SIZE();
  NewDVector(&d, n);
  VC_CHECK("NewDVector.size", d != NULL && d->size == n);
  VC_CHECK("NewDVector.zero", !(vc_k < n) || d->data[vc_k] == 0.0);
  VC_REACH();
}
