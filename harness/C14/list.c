/* C14 bounded harness: dvectorlist histories.  A list created empty (initDVectorList) or with VC_N0 pre-allocated
 * slots (NewDVectorList + one NewDVector per slot, the way the library fills such lists) receives VC_NAPP appended
 * vectors of concrete lengths with symbolic contents; every stored vector must be a deep, equal copy, earlier entries
 * must be preserved, and deletion must release everything exactly once (pointer checks of the verifier). */
#include "vc.h"
#include "list.h"
#include "vector.h"
#ifndef VC_N0
#define VC_N0 0
#endif
#ifndef VC_NAPP
#define VC_NAPP 2
#endif
#ifndef VC_LEN
#define VC_LEN 2
#endif
#define GMAX 8
static double val[GMAX][GMAX];

void h_DVectorList_history(void)
{
  dvectorlist *l;
  size_t i, j;
#if VC_N0 > 0
  NewDVectorList(&l, VC_N0);
  for(i = 0; i < VC_N0; i++)
    NewDVector(&l->d[i], 1);
#else
  initDVectorList(&l);
#endif
  for(i = 0; i < VC_NAPP; i++) {
    dvector *v;
    size_t len = (i % 2 == 0) ? VC_LEN : (VC_LEN > 0 ? VC_LEN - 1 : 0);
    NewDVector(&v, len);
    for(j = 0; j < len; j++) {
      val[i][j] = VC_IN_DBL();
      v->data[j] = val[i][j];
    }
    DVectorListAppend(l, v);
    VC_CHECK("list.append.size", l->size == VC_N0 + i + 1);
    VC_CHECK("list.append.deep-copy", l->d[l->size - 1] != v && (len == 0 || l->d[l->size - 1]->data != v->data));
    DelDVector(&v); /* the list keeps its own copy */
  }
  for(i = 0; i < VC_N0; i++)
    VC_CHECK("list.preallocated-slots-preserved", l->d[i]->size == 1 && l->d[i]->data[0] == 0.0);
  for(i = 0; i < VC_NAPP; i++) {
    size_t len = (i % 2 == 0) ? VC_LEN : (VC_LEN > 0 ? VC_LEN - 1 : 0);
    VC_CHECK("list.entry-size", l->d[VC_N0 + i]->size == len);
    for(j = 0; j < len; j++)
      VC_CHECK("list.entry-contents-preserved-by-later-appends", VC_SAME(l->d[VC_N0 + i]->data[j], val[i][j]));
  }
  DelDVectorList(&l);
  VC_REACH();
}
