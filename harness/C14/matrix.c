/* C14 bounded harnesses: matrix container operations.
 * One solver call per concrete shape (VC_R x VC_C, operand length VC_S, second shape VC_R2 x VC_C2);
 * every cell value is symbolic and every cell of the result is checked. */
#include "vc.h"
#include "matrix.h"
#include "vector.h"
#include "numeric.h"
#include "contracts/matrix.h"
#ifndef VC_CBMC
size_t vc_k, vc_k2;
double vc_g0;
#endif
#ifndef VC_R
#define VC_R 2
#endif
#ifndef VC_C
#define VC_C 2
#endif
#ifndef VC_S
#define VC_S 2
#endif
#ifndef VC_R2
#define VC_R2 VC_R
#endif
#ifndef VC_C2
#define VC_C2 VC_C
#endif
#define MAXD 8

static double cell[MAXD][MAXD]; /* recorded contents of the first operand */
static double opnd[MAXD];       /* recorded contents of the vector operand */

/* a well-formed matrix as NewMatrix/initMatrix/the append functions can produce it */
static matrix *mk_matrix(size_t r, size_t c, int record)
{
  matrix *m = vc_alloc(sizeof(matrix));
  m->row = r;
  m->col = c;
#ifdef VC_NULLDATA
  if(r == 0 && c == 0) {
    m->data = NULL; /* initMatrix state */
    return m;
  }
#endif
  m->data = vc_alloc(r * sizeof(double *));
  for(size_t i = 0; i < r; i++) {
    m->data[i] = vc_alloc(c * sizeof(double));
    for(size_t j = 0; j < c; j++) {
      double v = VC_IN_DBL();
      m->data[i][j] = v;
      if(record)
        cell[i][j] = v;
    }
  }
  return m;
}

static dvector *mk_dv(size_t n)
{
  dvector *d = vc_alloc(sizeof(dvector));
  d->size = n;
  d->data = (n > 0 || (VC_IN_SIZE() & 1)) ? vc_alloc(n * sizeof(double)) : NULL;
  for(size_t i = 0; i < n; i++) {
    opnd[i] = VC_IN_DBL();
    d->data[i] = opnd[i];
  }
  return d;
}

static uivector *mk_uiv(size_t n)
{
  uivector *d = vc_alloc(sizeof(uivector));
  d->size = n;
  d->data = (n > 0 || (VC_IN_SIZE() & 1)) ? vc_alloc(n * sizeof(size_t)) : NULL;
  for(size_t i = 0; i < n; i++) {
    size_t v = VC_IN_SIZE();
    VC_ASSUME(v <= ((size_t)1 << 52)); /* exactly representable as double */
    opnd[i] = (double)v;
    d->data[i] = v;
  }
  return d;
}

void h_NewMatrix(void)
{
  matrix *m = NULL;
  VC_GHOST_K();
  vc_k2 = VC_IN_SIZE();
  NewMatrix(&m, VC_R, VC_C);
  VC_CHECK("NewMatrix.shape", m != NULL && m->row == VC_R && m->col == VC_C);
  for(size_t i = 0; i < VC_R; i++)
    for(size_t j = 0; j < VC_C; j++)
      VC_CHECK("NewMatrix.zero", m->data[i][j] == 0);
  VC_REACH();
}

void h_initMatrix(void)
{
  matrix *m = NULL;
  initMatrix(&m);
  VC_CHECK("initMatrix.empty", m != NULL && m->row == 0 && m->col == 0 && m->data == NULL);
  VC_REACH();
}

void h_DelMatrix(void)
{
  matrix *m = mk_matrix(VC_R, VC_C, 0);
  DelMatrix(&m);
  VC_REACH();
}

void h_ResizeMatrix(void)
{
  matrix *m = mk_matrix(VC_R, VC_C, 0);
  VC_GHOST_K();
  vc_k2 = VC_IN_SIZE();
  ResizeMatrix(m, VC_R2, VC_C2);
  VC_CHECK("ResizeMatrix.shape", m->row == VC_R2 && m->col == VC_C2);
  for(size_t i = 0; i < VC_R2; i++)
    for(size_t j = 0; j < VC_C2; j++)
      VC_CHECK("ResizeMatrix.zero", m->data[i][j] == 0);
  VC_REACH();
}

void h_MatrixSet(void)
{
  matrix *m = mk_matrix(VC_R, VC_C, 0);
  double val = VC_IN_DBL();
  VC_GHOST_K();
  vc_k2 = VC_IN_SIZE();
  MatrixSet(m, val);
  VC_CHECK("MatrixSet.shape", m->row == VC_R && m->col == VC_C);
  for(size_t i = 0; i < VC_R; i++)
    for(size_t j = 0; j < VC_C; j++)
      VC_CHECK("MatrixSet.cells", VC_SAME(m->data[i][j], val));
  VC_REACH();
}

void h_MatrixCopy(void)
{
  matrix *s = mk_matrix(VC_R, VC_C, 1);
  matrix *d = mk_matrix(VC_R2, VC_C2, 0);
  VC_GHOST_K();
  vc_k2 = VC_IN_SIZE();
  MatrixCopy(s, &d);
  VC_CHECK("MatrixCopy.shape", d->row == VC_R && d->col == VC_C);
  VC_CHECK("MatrixCopy.deep-struct", d != s && (VC_R == 0 || d->data != s->data));
  for(size_t i = 0; i < VC_R; i++) {
    VC_CHECK("MatrixCopy.deep-rows", VC_C == 0 || d->data[i] != s->data[i]);
    for(size_t j = 0; j < VC_C; j++) {
      VC_CHECK("MatrixCopy.cells", VC_SAME(d->data[i][j], cell[i][j]));
      VC_CHECK("MatrixCopy.source-unchanged", VC_SAME(s->data[i][j], cell[i][j]));
    }
  }
  /* mutating the copy never changes the source */
  if(VC_R > 0 && VC_C > 0) {
    d->data[0][0] = 12345.0;
    VC_CHECK("MatrixCopy.independent", VC_SAME(s->data[0][0], cell[0][0]));
  }
  VC_REACH();
}

void h_setMatrixValue(void)
{
  matrix *m = mk_matrix(VC_R, VC_C, 1);
  size_t r = VC_IN_SIZE(), c = VC_IN_SIZE();
  double val = VC_IN_DBL();
  setMatrixValue(m, r, c, val);
  VC_CHECK("setMatrixValue.shape", m->row == VC_R && m->col == VC_C);
  for(size_t i = 0; i < VC_R; i++)
    for(size_t j = 0; j < VC_C; j++) {
      if(i == r && j == c)
        VC_CHECK("setMatrixValue.written", VC_SAME(m->data[i][j], ((val != val) || (val - val) != (val - val)) ? (double)MISSING : val));
      else
        VC_CHECK("setMatrixValue.others-preserved", VC_SAME(m->data[i][j], cell[i][j]));
    }
  VC_REACH();
}

void h_getMatrixValue(void)
{
  matrix *m = mk_matrix(VC_R, VC_C, 1);
  size_t r = VC_IN_SIZE(), c = VC_IN_SIZE();
  double v = getMatrixValue(m, r, c);
  if(r < VC_R && c < VC_C)
    VC_CHECK("getMatrixValue.value", VC_SAME(v, cell[r][c]));
  else
    VC_CHECK("getMatrixValue.out-of-range-sentinel", v != v);
  VC_REACH();
}

void h_getMatrixRow(void)
{
  matrix *m = mk_matrix(VC_R, VC_C, 1);
  size_t r = VC_IN_SIZE();
  VC_GHOST_K();
  dvector *v = getMatrixRow(m, r);
  if(r < VC_R) {
    VC_CHECK("getMatrixRow.size", v != NULL && v->size == VC_C);
    for(size_t j = 0; j < VC_C; j++)
      VC_CHECK("getMatrixRow.cells", VC_SAME(v->data[j], cell[r][j]));
  } else
    VC_CHECK("getMatrixRow.out-of-range-null", v == NULL);
  VC_REACH();
}

void h_getMatrixColumn(void)
{
  matrix *m = mk_matrix(VC_R, VC_C, 1);
  size_t c = VC_IN_SIZE();
  VC_GHOST_K();
  dvector *v = getMatrixColumn(m, c);
  if(c < VC_C) {
    VC_CHECK("getMatrixColumn.size", v != NULL && v->size == VC_R);
    for(size_t i = 0; i < VC_R; i++)
      VC_CHECK("getMatrixColumn.cells", VC_SAME(v->data[i], cell[i][c]));
  } else
    VC_CHECK("getMatrixColumn.out-of-range-null", v == NULL);
  VC_REACH();
}

#define APPENDROW(F, MK)                                                                        \
  void h_##F(void)                                                                              \
  {                                                                                             \
    matrix *m = mk_matrix(VC_R, VC_C, 1);                                                       \
    void *row = MK(VC_S);                                                                       \
    size_t nc = (VC_C != 0) ? (VC_S > VC_C ? VC_S : VC_C) : VC_S;                               \
    F(m, row);                                                                                  \
    VC_CHECK(#F ".shape", m->row == VC_R + 1 && m->col == nc);                                  \
    for(size_t i = 0; i < VC_R; i++)                                                            \
      for(size_t j = 0; j < nc; j++)                                                            \
        VC_CHECK(#F ".old-cells-preserved-new-zero", VC_SAME(m->data[i][j], j < VC_C ? cell[i][j] : 0.0)); \
    for(size_t j = 0; j < nc; j++)                                                              \
      VC_CHECK(#F ".new-row", VC_SAME(m->data[VC_R][j], j < VC_S ? opnd[j] : 0.0));             \
    VC_REACH();                                                                                 \
  }
APPENDROW(MatrixAppendRow, mk_dv)
APPENDROW(MatrixAppendUIRow, mk_uiv)

#define APPENDCOL(F, MK)                                                                        \
  void h_##F(void)                                                                              \
  {                                                                                             \
    matrix *m = mk_matrix(VC_R, VC_C, 1);                                                       \
    void *col = MK(VC_S);                                                                       \
    size_t nr = (VC_R != 0) ? (VC_S > VC_R ? VC_S : VC_R) : VC_S;                               \
    F(m, col);                                                                                  \
    VC_CHECK(#F ".shape", m->col == VC_C + 1 && m->row == nr);                                  \
    for(size_t i = 0; i < nr; i++) {                                                            \
      for(size_t j = 0; j < VC_C; j++)                                                          \
        VC_CHECK(#F ".old-cells-preserved-new-zero", VC_SAME(m->data[i][j], i < VC_R ? cell[i][j] : 0.0)); \
      VC_CHECK(#F ".new-col", VC_SAME(m->data[i][VC_C], i < VC_S ? opnd[i] : 0.0));             \
    }                                                                                           \
    VC_REACH();                                                                                 \
  }
APPENDCOL(MatrixAppendCol, mk_dv)
APPENDCOL(MatrixAppendUICol, mk_uiv)

void h_MatrixDeleteRowAt(void)
{
  matrix *m = mk_matrix(VC_R, VC_C, 1);
  size_t r = VC_IN_SIZE();
  VC_ASSUME(r < VC_R);
  MatrixDeleteRowAt(m, r);
  VC_CHECK("MatrixDeleteRowAt.shape", m->row == VC_R - 1 && m->col == VC_C);
  for(size_t i = 0; i + 1 < VC_R; i++)
    for(size_t j = 0; j < VC_C; j++)
      VC_CHECK("MatrixDeleteRowAt.cells", VC_SAME(m->data[i][j], cell[i < r ? i : i + 1][j]));
  VC_REACH();
}

void h_MatrixDeleteColAt(void)
{
  matrix *m = mk_matrix(VC_R, VC_C, 1);
  size_t c = VC_IN_SIZE();
  VC_ASSUME(c < VC_C);
  MatrixDeleteColAt(m, c);
  VC_CHECK("MatrixDeleteColAt.shape", m->row == VC_R && m->col == VC_C - 1);
  for(size_t i = 0; i < VC_R; i++)
    for(size_t j = 0; j + 1 < VC_C; j++)
      VC_CHECK("MatrixDeleteColAt.cells", VC_SAME(m->data[i][j], cell[i][j < c ? j : j + 1]));
  VC_REACH();
}
