/* C14: the "sort" operation of the vector containers (SortUIVector, DVectorSort, DVectorMedian).
 * The comparators are the part that lives in the library: they are checked loop-free over the full domain of two
 * elements (a complete decision, including signed overflow).  The sort routines run on their real bodies with libc qsort
 * represented by its contract - "the array ends up a permutation of itself, ordered with respect to the comparator it is
 * given, and the comparator is only called on elements of the array" - as an executable insertion sort driven by the real
 * comparator (assumed contract, stubs listed in the evidence). */
#include "vc.h"
#include "vector.h"
#include <string.h>
#ifndef VC_N
#define VC_N 3
#endif

#ifdef VC_CBMC
/* libc qsort by contract: insertion sort through the caller's comparator; element size <= 8 */
void vc_qsort(void *base, size_t n, size_t sz, int (*cmpf)(const void *, const void *))
{
  unsigned char *b = (unsigned char *)base;
  unsigned char tmp[8];
  __CPROVER_assert(sz <= 8, "qsort model: element size <= 8");
  for(size_t i = 1; i < n; i++)
    for(size_t j = i; j > 0 && cmpf(b + (j - 1) * sz, b + j * sz) > 0; j--) {
      memcpy(tmp, b + j * sz, sz);
      memcpy(b + j * sz, b + (j - 1) * sz, sz);
      memcpy(b + (j - 1) * sz, tmp, sz);
    }
}
#define qsort vc_qsort
#endif
extern int intcmp(const void *v1, const void *v2);
extern int cmp(const void *a, const void *b);
#include "vector.c"

/* comparator of SortUIVector: elements are size_t; the result must order them as size_t values and must not overflow */
void h_intcmp(void)
{
  size_t a = VC_IN_SIZE(), b = VC_IN_SIZE();
  int r = intcmp(&a, &b);
  VC_CHECK("SortUIVector comparator orders the stored size_t values: sign(result) == sign(a - b)",
           (a < b) ? (r < 0) : ((a > b) ? (r > 0) : (r == 0)));
  VC_REACH();
}

/* comparator of DVectorSort / DVectorMedian: total order on the non-NaN doubles */
void h_cmp(void)
{
  double a = VC_IN_DBL(), b = VC_IN_DBL();
  VC_ASSUME(a == a && b == b);
  int r = cmp(&a, &b);
  VC_CHECK("DVectorSort comparator orders the stored doubles: sign(result) == sign(a - b)",
           (a < b) ? (r < 0) : ((a > b) ? (r > 0) : (r == 0)));
  VC_REACH();
}

void h_SortUIVector(void)
{
  uivector *u;
  size_t in[VC_N + 1];
  NewUIVector(&u, VC_N);
  for(size_t i = 0; i < VC_N; i++) {
    in[i] = VC_IN_SIZE();
    u->data[i] = in[i];
  }
  SortUIVector(u);
  VC_CHECK("SortUIVector: size unchanged", u->size == VC_N);
  for(size_t i = 0; i + 1 < VC_N; i++)
    VC_CHECK("SortUIVector: ascending order of the stored values", u->data[i] <= u->data[i + 1]);
  for(size_t i = 0; i < VC_N; i++) {
    /* multiset equality: every input value occurs as often in the output as in the input */
    size_t ci = 0, co = 0;
    for(size_t k = 0; k < VC_N; k++) {
      ci += (in[k] == in[i]);
      co += (u->data[k] == in[i]);
    }
    VC_CHECK("SortUIVector: output is a permutation of the input", ci == co);
  }
  DelUIVector(&u);
  VC_REACH();
}

void h_DVectorSort(void)
{
  dvector *d, *m;
  double in[VC_N + 1], median;
  NewDVector(&d, VC_N);
  NewDVector(&m, VC_N);
  for(size_t i = 0; i < VC_N; i++) {
    in[i] = VC_IN_DBL();
    VC_ASSUME(in[i] == in[i]);
    d->data[i] = in[i];
    m->data[i] = in[i];
  }
  DVectorSort(d);
  VC_CHECK("DVectorSort: size unchanged", d->size == VC_N);
  for(size_t i = 0; i + 1 < VC_N; i++)
    VC_CHECK("DVectorSort: ascending order", d->data[i] <= d->data[i + 1]);
  for(size_t i = 0; i < VC_N; i++) {
    size_t ci = 0, co = 0;
    for(size_t k = 0; k < VC_N; k++) {
      ci += (in[k] == in[i]);
      co += (d->data[k] == in[i]);
    }
    VC_CHECK("DVectorSort: output is a permutation of the input", ci == co);
  }
  DVectorMedian(m, &median);
  /* DVectorMedian sorts its operand in place: the operand afterwards is the sorted input, the median is read off it */
  for(size_t i = 0; i < VC_N; i++)
    VC_CHECK("DVectorMedian: operand left as the sorted input", VC_SAME(m->data[i], d->data[i]));
  if(VC_N % 2)
    VC_CHECK("DVectorMedian: middle element of the sorted values (odd size)", VC_SAME(median, m->data[VC_N / 2]));
  else
    VC_CHECK("DVectorMedian: mean of the two middle elements (even size)", VC_SAME(median, (m->data[VC_N / 2] + m->data[(VC_N / 2) - 1]) / 2.f));
  DelDVector(&d);
  DelDVector(&m);
  VC_REACH();
}
