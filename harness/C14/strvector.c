/* C14 bounded harness: strvector operations on the real bodies; strings are short concrete/symbolic C strings.
 * Ownership is the point: every stored string must be the vector's own copy (deep), and deleting every container exactly
 * once must free every block exactly once (double free / use after free are pointer-check obligations). */
#include "vc.h"
#include "vector.h"
#include <string.h>
#ifndef VC_N1
#define VC_N1 1
#endif
#ifndef VC_N2
#define VC_N2 1
#endif
static char buf[4][4];
static char *sym_string(int k)
{
  uint64_t v = vc_in_u64();
  buf[k][0] = (char)('a' + (v % 3));
  buf[k][1] = (v & 8) ? 'x' : 0;
  buf[k][2] = 0;
  return buf[k];
}

void h_strvector_append(void)
{
  strvector *s;
  initStrVector(&s);
  for(int k = 0; k < VC_N1; k++) {
    char *str = sym_string(k);
    StrVectorAppend(s, str);
    VC_CHECK("StrVectorAppend: size grows by one", s->size == (size_t)k + 1);
    VC_CHECK("StrVectorAppend: stored string is the vector's own copy with the same text", s->data[k] != str && strcmp(s->data[k], str) == 0);
  }
  for(int k = 0; k < VC_N1; k++)
    VC_CHECK("StrVectorAppend: earlier entries preserved", strcmp(s->data[k], buf[k]) == 0);
  DelStrVector(&s);
  VC_REACH();
}

void h_strvector_extend(void)
{
  strvector *a, *b, *e;
  initStrVector(&a); initStrVector(&b);
  for(int k = 0; k < VC_N1; k++) StrVectorAppend(a, sym_string(k));
  for(int k = 0; k < VC_N2; k++) StrVectorAppend(b, sym_string(2 + k));
  e = StrVectorExtend(a, b);
  VC_CHECK("StrVectorExtend: result holds both operands' entries", e->size == (size_t)VC_N1 + VC_N2);
  for(int k = 0; k < VC_N1; k++)
    VC_CHECK("StrVectorExtend: copies are deep (the result owns its strings)", e->data[k] != a->data[k] && strcmp(e->data[k], a->data[k]) == 0);
  for(int k = 0; k < VC_N2; k++)
    VC_CHECK("StrVectorExtend: second operand follows the first, deep", e->data[VC_N1 + k] != b->data[k] && strcmp(e->data[VC_N1 + k], b->data[k]) == 0);
  /* every container is deleted exactly once: no block may be freed twice */
  DelStrVector(&e);
  DelStrVector(&a);
  DelStrVector(&b);
  VC_REACH();
}
