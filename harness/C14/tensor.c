/* C14 bounded harness: tensor operations on the real bodies.  A tensor with blocks of concrete shapes and symbolic
 * contents goes through one operation; shapes, contents (old cells preserved, copies deep and equal) and memory safety
 * (pointer checks) are checked. */
#include "vc.h"
#include "tensor.h"
#include "matrix.h"
#include "vector.h"
#ifndef VC_SR0
#define VC_SR0 2
#endif
#ifndef VC_SC0
#define VC_SC0 1
#endif
#ifndef VC_SR1
#define VC_SR1 1
#endif
#ifndef VC_SC1
#define VC_SC1 2
#endif
#ifndef VC_SORD
#define VC_SORD 2   /* blocks of the source */
#endif
#ifndef VC_DORD
#define VC_DORD 0   /* blocks of the destination before the copy (0 = initTensor state) */
#endif
#ifndef VC_DR
#define VC_DR 1
#endif
#ifndef VC_DC
#define VC_DC 1
#endif
#define GMAX 6
static double cell[GMAX][GMAX][GMAX];
static const size_t SR[2] = {VC_SR0, VC_SR1}, SC[2] = {VC_SC0, VC_SC1};

static tensor *mk_src(void)
{
  tensor *t;
  initTensor(&t);
  for(size_t k = 0; k < VC_SORD; k++) {
    AddTensorMatrix(t, SR[k], SC[k]);
    for(size_t i = 0; i < SR[k]; i++)
      for(size_t j = 0; j < SC[k]; j++) {
        cell[k][i][j] = VC_IN_DBL();
        /* finite cells: TensorCopy goes through setTensorValue, which by design maps NaN/Inf to the missing code */
        VC_ASSUME(cell[k][i][j] > -1e6 && cell[k][i][j] < 1e6);
        t->m[k]->data[i][j] = cell[k][i][j];
      }
  }
  return t;
}

void h_TensorCopy(void)
{
  tensor *s = mk_src(), *d;
  initTensor(&d);
  for(size_t k = 0; k < VC_DORD; k++)
    AddTensorMatrix(d, VC_DR, VC_DC);       /* a destination that already holds blocks of another shape */
  TensorCopy(s, &d);
  VC_CHECK("TensorCopy: destination has the source's number of blocks", d->order == VC_SORD);
  for(size_t k = 0; k < VC_SORD && k < d->order; k++) {
    VC_CHECK("TensorCopy: block shapes equal the source's", d->m[k]->row == SR[k] && d->m[k]->col == SC[k]);
    VC_CHECK("TensorCopy: copy is deep", d->m[k] != s->m[k]);
    for(size_t i = 0; i < SR[k]; i++)
      for(size_t j = 0; j < SC[k]; j++) {
        VC_CHECK("TensorCopy: cells equal the source's", VC_SAME(d->m[k]->data[i][j], cell[k][i][j]));
        VC_CHECK("TensorCopy: source unchanged", VC_SAME(s->m[k]->data[i][j], cell[k][i][j]));
      }
  }
  DelTensor(&d);
  DelTensor(&s);
  VC_REACH();
}

void h_TensorAppendMatrix(void)
{
  tensor *t = mk_src();
  matrix *m;
  double x[GMAX][GMAX];
  size_t rows = VC_SORD ? SR[VC_SORD - 1] : VC_DR;   /* appending requires the row count of the last block */
  NewMatrix(&m, rows, VC_DC);
  for(size_t i = 0; i < rows; i++) for(size_t j = 0; j < VC_DC; j++) { x[i][j] = VC_IN_DBL(); m->data[i][j] = x[i][j]; }
  TensorAppendMatrix(t, m);
  VC_CHECK("TensorAppendMatrix: one more block", t->order == VC_SORD + 1);
  VC_CHECK("TensorAppendMatrix: new block has the matrix's shape and is a deep copy", t->m[VC_SORD]->row == rows && t->m[VC_SORD]->col == VC_DC && t->m[VC_SORD] != m);
  for(size_t i = 0; i < rows; i++) for(size_t j = 0; j < VC_DC; j++) VC_CHECK("TensorAppendMatrix: new block equals the matrix", VC_SAME(t->m[VC_SORD]->data[i][j], x[i][j]));
  for(size_t k = 0; k < VC_SORD; k++)
    for(size_t i = 0; i < SR[k]; i++) for(size_t j = 0; j < SC[k]; j++) VC_CHECK("TensorAppendMatrix: earlier blocks preserved", VC_SAME(t->m[k]->data[i][j], cell[k][i][j]));
  DelMatrix(&m);
  DelTensor(&t);
  VC_REACH();
}

void h_tensor_accessors(void)
{
  tensor *t = mk_src();
  size_t k = VC_IN_SIZE(), i = VC_IN_SIZE(), j = VC_IN_SIZE();
  double v = VC_IN_DBL();
  VC_ASSUME(v > -1e6 && v < 1e6);
  double g = getTensorValue(t, k, i, j);
  if(k < VC_SORD && i < SR[k < 2 ? k : 0] && j < SC[k < 2 ? k : 0])
    VC_CHECK("getTensorValue: returns the cell", VC_SAME(g, cell[k][i][j]));
  else
    VC_CHECK("getTensorValue: out of range gives the NaN sentinel without touching memory", g != g);
  if(k < VC_SORD && i < SR[k < 2 ? k : 0] && j < SC[k < 2 ? k : 0]) {
    setTensorValue(t, k, i, j, v);
    VC_CHECK("setTensorValue: in range written", t->m[k]->data[i][j] == v);
  }
  TensorSet(t, v);
  for(size_t kk = 0; kk < VC_SORD; kk++)
    for(size_t a = 0; a < SR[kk]; a++) for(size_t b = 0; b < SC[kk]; b++) VC_CHECK("TensorSet: every cell = value", t->m[kk]->data[a][b] == v);
  DelTensor(&t);
  VC_REACH();
}
