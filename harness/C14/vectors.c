/* C14 Tier A harnesses: dvector / uivector / ivector operations.
 * Sizes are symbolic up to VC_MAXN (2^20), contents are nondeterministic heap blocks; the ghost cell vc_k
 * (and vc_k+1 where an operation shifts cells) carries a recorded value so that counterexamples replay. */
#include "vc.h"
#include "vector.h"
#include "numeric.h"
#include "contracts/vector.h"
#ifndef VC_CBMC
size_t vc_k, vc_k2;
double vc_g0;
#endif
#ifndef VC_MAXN
#define VC_MAXN ((size_t)1 << 20)
#endif

#define MK(P, T, E)                                                             \
  static T *mk_##P(size_t n)                                                    \
  {                                                                             \
    T *d = vc_alloc(sizeof(T));                                                 \
    d->size = n;                                                                \
    d->data = (n > 0 || (VC_IN_SIZE() & 1)) ? vc_alloc(n * sizeof(E)) : NULL;   \
    return d;                                                                   \
  }                                                                             \
  static T *in_##P(size_t maxn)                                                 \
  {                                                                             \
    size_t n = VC_IN_SIZE();                                                    \
    VC_ASSUME(n <= maxn);                                                       \
    return mk_##P(n);                                                           \
  }
MK(DVector, dvector, double)
MK(UIVector, uivector, size_t)
MK(IVector, ivector, int)

#define IN_double() VC_IN_DBL()
#define IN_size_t() VC_IN_SIZE()
#define IN_int() VC_IN_INT()

#define GENERIC(P, T, E)                                                                        \
  void h_init##P(void)                                                                          \
  {                                                                                             \
    T *d = NULL;                                                                                \
    init##P(&d);                                                                                \
    VC_CHECK("init.empty", d != NULL && d->size == 0 && d->data == NULL);                       \
    VC_REACH();                                                                                 \
  }                                                                                             \
  void h_New##P(void)                                                                           \
  {                                                                                             \
    T *d = NULL;                                                                                \
    size_t n = VC_IN_SIZE();                                                                    \
    VC_ASSUME(n <= VC_MAXN);                                                                    \
    VC_GHOST_K();                                                                        \
    New##P(&d, n);                                                                              \
    VC_CHECK("New.size", d != NULL && d->size == n);                                            \
    VC_CHECK("New.zero", !(vc_k < n) || d->data[vc_k] == 0);                                    \
    VC_REACH();                                                                                 \
  }                                                                                             \
  void h_Del##P(void)                                                                           \
  {                                                                                             \
    T *d = in_##P(VC_MAXN);                                                                     \
    Del##P(&d);                                                                                 \
    VC_REACH();                                                                                 \
  }                                                                                             \
  void h_##P##Append(void)                                                                      \
  {                                                                                             \
    T *d = in_##P(VC_MAXN - 1);                                                                 \
    size_t n = d->size;                                                                         \
    VC_GHOST_K();                                                                        \
    E old = IN_##E(), val = IN_##E();                                                           \
    if(vc_k < n)                                                                                \
      d->data[vc_k] = old;                                                                      \
    P##Append(d, val);                                                                          \
    VC_CHECK("Append.size", d->size == n + 1);                                                  \
    VC_CHECK("Append.last", VC_SAME(d->data[n], val));                                          \
    VC_CHECK("Append.old-cells-preserved", !(vc_k < n) || VC_SAME(d->data[vc_k], old));         \
    VC_REACH();                                                                                 \
  }                                                                                             \
  void h_##P##RemoveAt(void)                                                                    \
  {                                                                                             \
    T *d = in_##P(VC_MAXN);                                                                     \
    size_t n = d->size;                                                                         \
    size_t indx = VC_IN_SIZE();                                                                 \
    VC_GHOST_K();                                                                               \
    E c0 = IN_##E(), c1 = IN_##E();                                                             \
    if(vc_k < n)                                                                                \
      d->data[vc_k] = c0;                                                                       \
    if(vc_k + 1 < n)                                                                            \
      d->data[vc_k + 1] = c1;                                                                   \
    if(indx < n)                                                                                \
      vc_k2 = vc_k - indx;                                                                      \
    P##RemoveAt(d, indx);                                                                       \
    if(indx < n) {                                                                              \
      VC_CHECK("RemoveAt.size-1", d->size == n - 1);                                            \
      VC_CHECK("RemoveAt.prefix", !(vc_k < indx && vc_k < d->size) || VC_SAME(d->data[vc_k], c0)); \
      VC_CHECK("RemoveAt.shift", !(vc_k >= indx && vc_k < d->size) || VC_SAME(d->data[vc_k], c1)); \
    } else {                                                                                    \
      VC_CHECK("RemoveAt.noop-size", d->size == n);                                             \
      VC_CHECK("RemoveAt.noop-cell", !(vc_k < n) || VC_SAME(d->data[vc_k], c0));                \
    }                                                                                           \
    VC_REACH();                                                                                 \
  }                                                                                             \
  void h_##P##Extend(void)                                                                      \
  {                                                                                             \
    T *d1 = in_##P(VC_MAXN), *d2 = in_##P(VC_MAXN);                                             \
    VC_ASSUME(d1->size + d2->size <= VC_MAXN);                                                  \
    VC_GHOST_K();                                                                        \
    E c = IN_##E();                                                                             \
    if(vc_k < d1->size)                                                                         \
      d1->data[vc_k] = c;                                                                       \
    else if(vc_k - d1->size < d2->size)                                                         \
      d2->data[vc_k - d1->size] = c;                                                            \
    T *r = P##Extend(d1, d2);                                                                   \
    VC_CHECK("Extend.size", r != NULL && r->size == d1->size + d2->size);                       \
    VC_CHECK("Extend.cells", !(vc_k < r->size) || VC_SAME(r->data[vc_k], c));                   \
    VC_CHECK("Extend.deep", r != d1 && r != d2 && (r->size == 0 || (r->data != d1->data && r->data != d2->data))); \
    VC_REACH();                                                                                 \
  }                                                                                             \
  void h_get##P##Value(void)                                                                    \
  {                                                                                             \
    T *d = in_##P(VC_MAXN);                                                                     \
    size_t id = VC_IN_SIZE();                                                                   \
    E c = IN_##E();                                                                             \
    if(id < d->size)                                                                            \
      d->data[id] = c;                                                                          \
    E r = get##P##Value(d, id);                                                                 \
    VC_CHECK("get.returns-only-in-range", id < d->size);                                        \
    VC_CHECK("get.value", VC_SAME(r, c));                                                       \
    VC_REACH();                                                                                 \
  }                                                                                             \
  void h_set##P##Value(void)                                                                    \
  {                                                                                             \
    T *d = in_##P(VC_MAXN);                                                                     \
    size_t id = VC_IN_SIZE();                                                                   \
    VC_GHOST_K();                                                                        \
    E old = IN_##E(), val = IN_##E();                                                           \
    if(vc_k < d->size)                                                                          \
      d->data[vc_k] = old;                                                                      \
    set##P##Value(d, id, val);                                                                  \
    VC_CHECK("set.in-range-written", !(id < d->size) || VC_SAME(d->data[id], val));             \
    VC_CHECK("set.others-preserved", !(vc_k < d->size && vc_k != id) || VC_SAME(d->data[vc_k], old)); \
    VC_REACH();                                                                                 \
  }                                                                                             \
  void h_##P##Set(void)                                                                         \
  {                                                                                             \
    T *d = in_##P(VC_MAXN);                                                                     \
    VC_GHOST_K();                                                                        \
    E val = IN_##E();                                                                           \
    P##Set(d, val);                                                                             \
    VC_CHECK("Set.cells", !(vc_k < d->size) || VC_SAME(d->data[vc_k], val));                    \
    VC_REACH();                                                                                 \
  }

GENERIC(DVector, dvector, double)
GENERIC(UIVector, uivector, size_t)
GENERIC(IVector, ivector, int)

#define RESIZE(P, T, E)                                                                         \
  void h_##P##Resize(void)                                                                      \
  {                                                                                             \
    T *d = in_##P(VC_MAXN);                                                                     \
    size_t n = VC_IN_SIZE();                                                                    \
    VC_ASSUME(n <= VC_MAXN);                                                                    \
    VC_GHOST_K();                                                                        \
    P##Resize(d, n);                                                                            \
    VC_CHECK("Resize.size", d->size == n);                                                      \
    VC_CHECK("Resize.zero", !(vc_k < n) || d->data[vc_k] == 0);                                 \
    VC_REACH();                                                                                 \
  }
RESIZE(DVector, dvector, double)
RESIZE(UIVector, uivector, size_t)

void h_DVectorCopy(void)
{
  dvector *s = in_DVector(VC_MAXN), *t = in_DVector(VC_MAXN);
  VC_GHOST_K();
  double c = VC_IN_DBL();
  if(vc_k < s->size)
    s->data[vc_k] = c;
  DVectorCopy(s, t);
  VC_CHECK("Copy.size", t->size == s->size);
  VC_CHECK("Copy.cells", !(vc_k < s->size) || VC_SAME(t->data[vc_k], c));
  VC_CHECK("Copy.source-unchanged", !(vc_k < s->size) || VC_SAME(s->data[vc_k], c));
  VC_CHECK("Copy.deep", s->size == 0 || t->data != s->data);
  VC_REACH();
}

void h_DVectorHasValue(void)
{
  dvector *d = in_DVector(VC_MAXN);
  VC_GHOST_K();
  double c = VC_IN_DBL(), val = VC_IN_DBL();
  if(vc_k < d->size)
    d->data[vc_k] = c;
  int r = DVectorHasValue(d, val);
  VC_CHECK("HasValue.range", r == 0 || r == 1);
  VC_CHECK("HasValue.absent-means-absent", !(r == 1 && vc_k < d->size) || !FLOAT_EQ(c, val, EPSILON));
  VC_REACH();
}

void h_UIVectorHasValue(void)
{
  uivector *d = in_UIVector(VC_MAXN);
  VC_GHOST_K();
  size_t c = VC_IN_SIZE(), val = VC_IN_SIZE();
  if(vc_k < d->size)
    d->data[vc_k] = c;
  int r = UIVectorHasValue(d, val);
  VC_CHECK("HasValue.range", r == 0 || r == 1);
  VC_CHECK("HasValue.absent-means-absent", !(r == 1 && vc_k < d->size) || c != val);
  VC_REACH();
}

void h_IVectorHasValue(void)
{
  ivector *d = in_IVector(VC_MAXN);
  VC_GHOST_K();
  int c = VC_IN_INT(), val = VC_IN_INT();
  if(vc_k < d->size)
    d->data[vc_k] = c;
  int r = IVectorHasValue(d, val);
  VC_CHECK("HasValue.range", r == 0 || r == 1);
  VC_CHECK("HasValue.absent-means-absent", !(r == 1 && vc_k < d->size) || c != val);
  VC_REACH();
}

void h_UIVectorIndexOf(void)
{
  uivector *d = in_UIVector(VC_MAXN);
  VC_GHOST_K();
  size_t c = VC_IN_SIZE(), val = VC_IN_SIZE();
  if(vc_k < d->size)
    d->data[vc_k] = c;
  int r = UIVectorIndexOf(d, val);
  VC_CHECK("IndexOf.range", r == -1 || (r >= 0 && (size_t)r < d->size));
  VC_CHECK("IndexOf.found", r < 0 || d->data[r] == val);
  VC_CHECK("IndexOf.first", !(vc_k < d->size && (r == -1 || vc_k < (size_t)r)) || c != val);
  VC_REACH();
}

void h_DVectorMinMax(void)
{
  dvector *v = in_DVector(VC_MAXN);
  VC_GHOST_K();
  double c = VC_IN_DBL();
  if(vc_k < v->size)
    v->data[vc_k] = c;
  size_t which = VC_IN_SIZE();
  double mn, mx;
  DVectorMinMax(v, (which & 1) ? &mn : NULL, (which & 2) ? &mx : NULL);
  VC_CHECK("MinMax.nonempty", v->size > 0);
  VC_CHECK("MinMax.min-bounds", !((which & 1) && vc_k < v->size) || !(c < mn));
  VC_CHECK("MinMax.max-bounds", !((which & 2) && vc_k < v->size) || !(c > mx));
  VC_REACH();
}

void h_DVectNorm(void)
{
  dvector *v = in_DVector(VC_MAXN);
  dvector *nv = (VC_IN_SIZE() & 1) ? v : in_DVector(VC_MAXN);
  VC_GHOST_K();
  double c = VC_IN_DBL();
  if(vc_k < v->size)
    v->data[vc_k] = c;
  vc_g0 = c;
  DVectNorm(v, nv);
  VC_CHECK("Norm.returns-only-when-output-fits", nv->size >= v->size && nv->size != 0);
  VC_CHECK("Norm.missing-propagates", !(vc_k < v->size && FLOAT_EQ(c, MISSING, 1e-1)) || nv->data[vc_k] == MISSING);
  VC_REACH();
}

void h_DvectorModule(void)
{
  dvector *v = in_DVector(VC_MAXN);
  (void)DvectorModule(v);
  VC_REACH();
}

void h_DVectorDVectorDotProd(void)
{
  dvector *a = in_DVector(VC_MAXN), *b = in_DVector(VC_MAXN);
  VC_ASSUME(b->size >= a->size);
  (void)DVectorDVectorDotProd(a, b);
  VC_REACH();
}

void h_DVectorMean(void)
{
  dvector *v = in_DVector(VC_MAXN);
  double m;
  DVectorMean(v, &m);
  VC_REACH();
}

void h_DVectorSDEV(void)
{
  dvector *v = in_DVector(VC_MAXN);
  double m;
  DVectorSDEV(v, &m);
  VC_REACH();
}

#ifdef VC_FIXN
/* bounded variant: concrete size, symbolic index and contents */
#define REMOVEAT_FIX(P, T, E)                                                                   \
  void h_##P##RemoveAt_fix(void)                                                                \
  {                                                                                             \
    T *d = mk_##P(VC_FIXN);                                                                     \
    size_t n = d->size;                                                                         \
    size_t indx = VC_IN_SIZE();                                                                 \
    E c[VC_FIXN + 1];                                                                           \
    for(size_t q = 0; q < VC_FIXN; q++) {                                                       \
      c[q] = IN_##E();                                                                          \
      d->data[q] = c[q];                                                                        \
    }                                                                                           \
    VC_GHOST_K();                                                                               \
    if(indx < n)                                                                                \
      vc_k2 = vc_k - indx;                                                                      \
    P##RemoveAt(d, indx);                                                                       \
    if(indx < n) {                                                                              \
      VC_CHECK("RemoveAt.size-1", d->size == n - 1);                                            \
      VC_CHECK("RemoveAt.prefix", !(vc_k < indx && vc_k < d->size) || VC_SAME(d->data[vc_k], c[vc_k])); \
      VC_CHECK("RemoveAt.shift", !(vc_k >= indx && vc_k < d->size) || VC_SAME(d->data[vc_k], c[vc_k + 1])); \
    } else {                                                                                    \
      VC_CHECK("RemoveAt.noop-size", d->size == n);                                             \
      VC_CHECK("RemoveAt.noop-cell", !(vc_k < n) || VC_SAME(d->data[vc_k], c[vc_k]));           \
    }                                                                                           \
    VC_REACH();                                                                                 \
  }
REMOVEAT_FIX(DVector, dvector, double)
REMOVEAT_FIX(UIVector, uivector, size_t)
REMOVEAT_FIX(IVector, ivector, int)
#endif
