/* C15: figures of merit on the real bodies.
 *  - ROC: for a concrete label pattern and a concrete score order (enumerated), symbolic score values respecting that
 *    order: first point (0,0), one point per object in descending score order, coordinates count/total, last point (1,1),
 *    monotone.  The area routine is an oracle.
 *  - R2/MSE/MAE/BIAS: a missing-coded truth is ignored: the value equals the function applied to the vectors with that
 *    element removed (both sides computed by the real function: identical operation sequences).
 *  - PLSRegressionStatistics: table cell [lv][j] is R2/RMSE/BIAS (oracles recording their operands) of (true column j
 *    without missing rows, predicted column ny*lv+j restricted to the same rows). */
#include "vc.h"
#include "matrix.h"
#include "vector.h"
#include "numeric.h"
#ifndef VC_N
#define VC_N 3
#endif
#ifndef VC_LABELS
#define VC_LABELS 5 /* bit i = label of object i */
#endif
#ifndef VC_PERM
#define VC_PERM 0   /* index of the descending-score order among the n! orders */
#endif
#ifndef VC_K
#define VC_K 0      /* index of the missing-coded element */
#endif
#define GMAX 8

#ifdef VC_UNIT_ROC
#ifndef VC_REAL_AREA
static double vc_area(matrix *xy, size_t iv) { (void)xy; (void)iv; return 0.5; }
#define curve_area vc_area
#endif
#include "statistic.c"
static const unsigned char PERMS[6][3] = {{0,1,2},{0,2,1},{1,0,2},{1,2,0},{2,0,1},{2,1,0}};
void h_ROC(void)
{
  dvector *yt, *ys;
  matrix *roc;
  double auc;
  size_t order[GMAX];
  NewDVector(&yt, VC_N); NewDVector(&ys, VC_N); initMatrix(&roc);
  for(size_t i = 0; i < VC_N; i++)
    order[i] = (VC_N == 3) ? PERMS[VC_PERM][i] : (VC_N == 2 ? (VC_PERM ? 1 - i : i) : i);
  /* scores: symbolic, strictly decreasing along `order` (no ties) */
  double prev = 0;
  for(size_t r = 0; r < VC_N; r++) {
    double s = VC_IN_DBL();
    VC_ASSUME(s > -1e6 && s < 1e6);
    if(r > 0) VC_ASSUME(s < prev);
    prev = s;
    ys->data[order[r]] = s;
  }
  size_t npos = 0, nneg = 0;
  for(size_t i = 0; i < VC_N; i++) {
    yt->data[i] = ((VC_LABELS >> i) & 1) ? 1.0 : 0.0;
    if((VC_LABELS >> i) & 1) npos++; else nneg++;
  }
  ROC(yt, ys, roc, &auc);
  VC_CHECK("ROC: one point per object plus the origin", roc->row == VC_N + 1 && roc->col == 2);
  VC_CHECK("ROC: starts at (0,0)", roc->data[0][0] == 0.0 && roc->data[0][1] == 0.0);
  size_t tp = 0, fp = 0;
  for(size_t r = 0; r < VC_N; r++) {
    if((VC_LABELS >> order[r]) & 1) tp++; else fp++;
    VC_CHECK("ROC: k-th point = (false positives, true positives) among the k highest scores, over the class totals",
             roc->data[r + 1][0] == (double)fp / (double)nneg && roc->data[r + 1][1] == (double)tp / (double)npos);
    VC_CHECK("ROC: monotone non-decreasing", roc->data[r + 1][0] >= roc->data[r][0] && roc->data[r + 1][1] >= roc->data[r][1]);
  }
  VC_CHECK("ROC: ends at (1,1)", roc->data[VC_N][0] == 1.0 && roc->data[VC_N][1] == 1.0);
#ifdef VC_REAL_AREA
  /* with the real trapezoid routine: class sizes 1 or 2 make every coordinate and every trapezoid exactly representable
   * (exact instances), so the area must equal the Mann-Whitney probability exactly.  The expected value depends on the
   * score ORDER only: invariance under strictly increasing maps and under reordering of the objects, and AUC -> 1 - AUC
   * under negation (the reversed order), follow from deciding this for every order. */
  {
    size_t conc = 0;
    for(size_t r1 = 0; r1 < VC_N; r1++)
      for(size_t r2 = r1 + 1; r2 < VC_N; r2++)
        if(((VC_LABELS >> order[r1]) & 1) && !((VC_LABELS >> order[r2]) & 1))
          conc++; /* a positive ranked above a negative */
    VC_CHECK("AUC == probability that a positive outscores a negative (Mann-Whitney), exactly", auc == (double)conc / (double)(npos * nneg));
  }
#endif
  /* precision-recall curve on the same data: starts at (recall 0, precision 1), recall non-decreasing, ends at recall 1 */
  {
    matrix *pr;
    double ap;
    initMatrix(&pr);
    PrecisionRecall(yt, ys, pr, &ap);
    VC_CHECK("PR: one point per object plus the start point", pr->row == VC_N + 1 && pr->col == 2);
    VC_CHECK("PR: starts at recall 0, precision 1", pr->data[0][0] == 0.0 && pr->data[0][1] == 1.0);
    size_t tp2 = 0, fp2 = 0;
    for(size_t r = 0; r < VC_N; r++) {
      if((VC_LABELS >> order[r]) & 1) tp2++; else fp2++;
      VC_CHECK("PR: k-th point = (recall, precision) of the k highest scores", pr->data[r + 1][0] == (double)tp2 / (double)npos &&
               pr->data[r + 1][1] == (double)tp2 / (double)(tp2 + fp2));
      VC_CHECK("PR: recall is non-decreasing", pr->data[r + 1][0] >= pr->data[r][0]);
    }
    VC_CHECK("PR: ends at recall 1", pr->data[VC_N][0] == 1.0);
    VC_CHECK("PR: reported area lies in [0,1]", ap >= 0.0 && ap <= 1.0);
  }
  VC_REACH();
}
#endif

#ifdef VC_UNIT_MISSING
#ifndef VC_WHICH
#define VC_WHICH 0
#endif
#include "statistic.h"
void h_missing_ignored(void)
{
  dvector *yt, *yp, *ytf, *ypf;
  NewDVector(&yt, VC_N); NewDVector(&yp, VC_N); NewDVector(&ytf, VC_N - 1); NewDVector(&ypf, VC_N - 1);
  size_t f = 0;
  for(size_t i = 0; i < VC_N; i++) {
    double a = VC_IN_DBL(), b = VC_IN_DBL();
    VC_ASSUME(a > -1e3 && a < 1e3 && b > -1e3 && b < 1e3);
    if(i == VC_K) {
      yt->data[i] = MISSING; yp->data[i] = b;
    } else {
      yt->data[i] = a; yp->data[i] = b;
      ytf->data[f] = a; ypf->data[f] = b; f++;
    }
  }
#if VC_WHICH == 0
  VC_CHECK("MAE ignores a missing-coded truth: equals MAE of the vectors without that element", VC_SAME(MAE(yt, yp), MAE(ytf, ypf)));
#elif VC_WHICH == 1
  VC_CHECK("MSE ignores a missing-coded truth", VC_SAME(MSE(yt, yp), MSE(ytf, ypf)));
#elif VC_WHICH == 2
  VC_CHECK("R2 ignores a missing-coded truth", VC_SAME(R2(yt, yp), R2(ytf, ypf)));
#else
  VC_CHECK("BIAS ignores a missing-coded truth", VC_SAME(BIAS(yt, yp), BIAS(ytf, ypf)));
#endif
  VC_REACH();
}
#endif

#ifdef VC_UNIT_TABLE
#ifndef VC_NY
#define VC_NY 2
#endif
#ifndef VC_NLV
#define VC_NLV 2
#endif
static size_t calls[3];
static double arg_t[3][GMAX][GMAX], arg_p[3][GMAX][GMAX], retv[3][GMAX];
static size_t arg_n[3][GMAX];
static double rec(int which, dvector *t, dvector *p)
{
  size_t c = calls[which]++;
  double v = VC_IN_DBL();
  VC_ASSUME(v > -1e6 && v < 1e6);
  if(c < GMAX) {
    arg_n[which][c] = t->size;
    VC_CHECK("statistic called with vectors of equal length", t->size == p->size);
    for(size_t i = 0; i < t->size && i < GMAX; i++) { arg_t[which][c][i] = t->data[i]; arg_p[which][c][i] = p->data[i]; }
    retv[which][c] = v;
  }
  return v;
}
static double vc_R2(dvector *t, dvector *p) { return rec(0, t, p); }
static double vc_RMSE(dvector *t, dvector *p) { return rec(1, t, p); }
static double vc_BIAS(dvector *t, dvector *p) { return rec(2, t, p); }
#define R2 vc_R2
#define RMSE vc_RMSE
#define BIAS vc_BIAS
#include "pls.c"
void h_PLSRegressionStatistics(void)
{
  matrix *yt, *yp, *r2, *rmse, *bias;
  double t[GMAX][GMAX], p[GMAX][GMAX];
  NewMatrix(&yt, VC_N, VC_NY); NewMatrix(&yp, VC_N, VC_NY * VC_NLV);
  initMatrix(&r2); initMatrix(&rmse); initMatrix(&bias);
  size_t miss = VC_IN_SIZE();   /* row whose truth in column 0 is missing-coded (VC_N = none) */
  VC_ASSUME(miss <= VC_N);
  for(size_t i = 0; i < VC_N; i++) {
    for(size_t j = 0; j < VC_NY; j++) {
      t[i][j] = VC_IN_DBL();
      VC_ASSUME(t[i][j] > -1e3 && t[i][j] < 1e3);
      if(i == miss && j == 0) t[i][j] = MISSING;
      yt->data[i][j] = t[i][j];
    }
    for(size_t j = 0; j < VC_NY * VC_NLV; j++) {
      p[i][j] = VC_IN_DBL();
      yp->data[i][j] = p[i][j];
    }
  }
  calls[0] = calls[1] = calls[2] = 0;
  PLSRegressionStatistics(yt, yp, r2, rmse, bias);
  VC_CHECK("tables are nlv x ny", r2->row == VC_NLV && r2->col == VC_NY && rmse->row == VC_NLV && rmse->col == VC_NY && bias->row == VC_NLV && bias->col == VC_NY);
  VC_CHECK("one evaluation of each statistic per (latent variable, response)", calls[0] == VC_NLV * VC_NY && calls[1] == VC_NLV * VC_NY && calls[2] == VC_NLV * VC_NY);
  for(size_t lv = 0; lv < VC_NLV; lv++)
    for(size_t j = 0; j < VC_NY; j++) {
      size_t c = lv * VC_NY + j;
      VC_CHECK("table cell [lv][j] holds the value computed for that pair", VC_SAME(r2->data[lv][j], retv[0][c]) && VC_SAME(rmse->data[lv][j], retv[1][c]) && VC_SAME(bias->data[lv][j], retv[2][c]));
      size_t k = 0;
      for(size_t i = 0; i < VC_N; i++) {
        if(j == 0 && i == miss) continue;        /* missing-coded truths are left out */
        for(int w = 0; w < 3; w++) {
          VC_CHECK("statistic receives the true column j without missing-coded rows", VC_SAME(arg_t[w][c][k], t[i][j]));
          VC_CHECK("statistic receives the predicted column ny*lv+j restricted to the same rows", VC_SAME(arg_p[w][c][k], p[i][VC_NY * lv + j]));
        }
        k++;
      }
      VC_CHECK("operand length = number of non-missing truths", arg_n[0][c] == k && arg_n[1][c] == k && arg_n[2][c] == k);
    }
  VC_REACH();
}
#endif

#ifdef VC_UNIT_FORMULAS
/* R2 / MSE / RMSE / MAE / BIAS against their formulas on exact instances (IEEE mode: integer cells 0..3, 2 elements (3 with one missing-coded),
 * total sum of squares a power of two): every intermediate of the formulas is then exactly representable, so every
 * mathematically equivalent evaluation (one-pass / shifted formulas, other summation order) returns the same double and
 * exact equality is the right obligation.  What is decided: which elements enter which sum, the argument order
 * (prediction - truth), the counts and the denominators; sqrt is an uninterpreted function (stubs/usqrt_stub.c);
 * rounding on general data and the missing-value branch are not decided here. */
#include "statistic.h"
#include <math.h>
static double small_cell(void)
{
  uint64_t v = vc_in_u64();
  VC_ASSUME(v <= 3);
  return (double)v;
}
#ifndef VC_MISS
#define VC_MISS -1 /* index of a missing-coded truth, -1: none */
#endif
#define USED(i) ((long)(i) != (long)VC_MISS)
void h_regression_formulas(void)
{
  dvector *yt, *yp;
  double t[GMAX], p[GMAX];
  NewDVector(&yt, VC_N); NewDVector(&yp, VC_N);
  for(size_t i = 0; i < VC_N; i++) {
    t[i] = yt->data[i] = USED(i) ? small_cell() : (double)MISSING;
    p[i] = yp->data[i] = small_cell();
  }
  const double n = (double)(VC_N - (VC_MISS >= 0 ? 1 : 0)); /* truths that are not missing-coded */
  double avg = 0, ssreg = 0, sstot = 0, sabs = 0, syi = 0, sxi = 0;
  for(size_t i = 0; i < VC_N; i++)
    if(USED(i))
      avg += t[i];
  avg /= n;
  for(size_t i = 0; i < VC_N; i++)
    if(USED(i)) {
      ssreg += (p[i] - t[i]) * (p[i] - t[i]);
      sstot += (t[i] - avg) * (t[i] - avg);
      sabs += (p[i] > t[i]) ? (p[i] - t[i]) : (t[i] - p[i]);
      syi += p[i] * (t[i] - avg);
      sxi += t[i] * (t[i] - avg);
    }
  /* the ratios are defined and exactly representable (sxi equals sstot in exact arithmetic) */
  VC_ASSUME(sstot == 0.5 || sstot == 1 || sstot == 2 || sstot == 4 || sstot == 8);
  double r2 = R2(yt, yp), mse = MSE(yt, yp), rmse = RMSE(yt, yp), mae = MAE(yt, yp), bias = BIAS(yt, yp);
  VC_CHECK("MSE == sum (prediction - truth)^2 / n over the truths that are not missing-coded", mse == ssreg / n);
  double h_rmse = sqrt(ssreg / n);
  VC_CHECK("RMSE == sqrt(MSE)", VC_SAME(rmse, h_rmse));
  VC_CHECK("MAE == sum |prediction - truth| / n over the truths that are not missing-coded", mae == sabs / n);
  VC_CHECK("R2 == 1 - sum (prediction - truth)^2 / sum (truth - mean truth)^2 over the truths that are not missing-coded", r2 == 1 - ssreg / sstot);
  double b = 1 - syi / sxi;
  VC_CHECK("BIAS == |1 - slope of prediction on truth| over the truths that are not missing-coded", bias == (b < 0 ? -b : b));
  VC_CHECK("perfect prediction: errors 0 and R2 == 1", !(ssreg == 0) || (mse == 0 && mae == 0 && r2 == 1));
  VC_REACH();
}
#endif
