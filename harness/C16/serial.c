/* C16 (narrow): the (de)serialiser pairs of io.c are inverse on the real static functions (io.c included), bounded
 * concrete shapes incl. tensors whose blocks have different shapes, symbolic contents; serialising does not modify the
 * in-memory object; serialised length formulas.  Data movement + exact size_t<->double conversion of small integers. */
#include "vc.h"
#include "matrix.h"
#include "vector.h"
#include "tensor.h"
#include "list.h"
#include "io.c"
#ifndef VC_R
#define VC_R 2
#endif
#ifndef VC_C
#define VC_C 3
#endif
#ifndef VC_R2
#define VC_R2 3
#endif
#ifndef VC_C2
#define VC_C2 1
#endif
#define GMAX 8

void h_matrix_roundtrip(void)
{
  matrix *m, *back;
  dvector *ser;
  double x[GMAX][GMAX];
  NewMatrix(&m, VC_R, VC_C); initMatrix(&back); initDVector(&ser);
  for(size_t i = 0; i < VC_R; i++) for(size_t j = 0; j < VC_C; j++) { x[i][j] = VC_IN_DBL(); m->data[i][j] = x[i][j]; }
  serialize_matrix(m, ser);
  VC_CHECK("serialised matrix has 2 + rows*cols entries", ser->size == 2 + (size_t)VC_R * VC_C);
  deserialize_matrix(ser, back);
  VC_CHECK("matrix read back has the written dimensions", back->row == VC_R && back->col == VC_C);
  for(size_t i = 0; i < VC_R; i++)
    for(size_t j = 0; j < VC_C; j++) {
      VC_CHECK("matrix read back has the written cells", VC_SAME(back->data[i][j], x[i][j]));
      VC_CHECK("serialising does not modify the matrix", VC_SAME(m->data[i][j], x[i][j]));
    }
  VC_REACH();
}

void h_tensor_roundtrip(void)
{
  /* two blocks of different shapes: VC_R x VC_C and VC_R2 x VC_C2 */
  tensor *t, *back;
  dvector *ser;
  double a[GMAX][GMAX], b[GMAX][GMAX];
  initTensor(&t); initTensor(&back); initDVector(&ser);
  AddTensorMatrix(t, VC_R, VC_C);
  AddTensorMatrix(t, VC_R2, VC_C2);
  for(size_t i = 0; i < VC_R; i++) for(size_t j = 0; j < VC_C; j++) { a[i][j] = VC_IN_DBL(); t->m[0]->data[i][j] = a[i][j]; }
  for(size_t i = 0; i < VC_R2; i++) for(size_t j = 0; j < VC_C2; j++) { b[i][j] = VC_IN_DBL(); t->m[1]->data[i][j] = b[i][j]; }
  serialize_tensor(t, ser);
  VC_CHECK("serialised tensor has 1 + sum(2 + rows*cols) entries", ser->size == 1 + (2 + (size_t)VC_R * VC_C) + (2 + (size_t)VC_R2 * VC_C2));
  deserialize_tensor(ser, back);
  VC_CHECK("tensor read back has the written order and block shapes", back->order == 2 && back->m[0]->row == VC_R && back->m[0]->col == VC_C &&
           back->m[1]->row == VC_R2 && back->m[1]->col == VC_C2);
  for(size_t i = 0; i < VC_R; i++) for(size_t j = 0; j < VC_C; j++) VC_CHECK("tensor block 0 read back equal", VC_SAME(back->m[0]->data[i][j], a[i][j]));
  for(size_t i = 0; i < VC_R2; i++) for(size_t j = 0; j < VC_C2; j++) VC_CHECK("tensor block 1 read back equal", VC_SAME(back->m[1]->data[i][j], b[i][j]));
  VC_REACH();
}

void h_tensor_serialize(void)
{
  /* serialising half only (the deserialiser's loop bounds are symbolic for the solver): layout and length of the
   * serialised form of a tensor whose two blocks have different shapes */
  tensor *t;
  dvector *ser;
  double a[GMAX][GMAX], b[GMAX][GMAX];
  /* NewTensor + NewTensorMatrix: the block table is allocated once (a realloc'ed table makes the block pointers, and with
   * them every size, symbolic for the solver) */
  NewTensor(&t, 2); initDVector(&ser);
  NewTensorMatrix(t, 0, VC_R, VC_C);
  NewTensorMatrix(t, 1, VC_R2, VC_C2);
  for(size_t i = 0; i < VC_R; i++) for(size_t j = 0; j < VC_C; j++) { a[i][j] = VC_IN_DBL(); t->m[0]->data[i][j] = a[i][j]; }
  for(size_t i = 0; i < VC_R2; i++) for(size_t j = 0; j < VC_C2; j++) { b[i][j] = VC_IN_DBL(); t->m[1]->data[i][j] = b[i][j]; }
  serialize_tensor(t, ser);
  VC_CHECK("serialised tensor has 1 + sum(2 + rows*cols) entries", ser->size == 1 + (2 + (size_t)VC_R * VC_C) + (2 + (size_t)VC_R2 * VC_C2));
  VC_CHECK("serialised tensor starts with the order and the first block's shape", ser->data[0] == 2.0 && ser->data[1] == (double)VC_R && ser->data[2] == (double)VC_C);
  size_t off = 3;
  for(size_t i = 0; i < VC_R; i++) for(size_t j = 0; j < VC_C; j++) { double sv = ser->data[off++]; VC_CHECK("block 0 cells follow in row-major order", VC_SAME(sv, a[i][j])); }
  VC_CHECK("second block's shape follows the first block's cells", ser->data[off] == (double)VC_R2 && ser->data[off + 1] == (double)VC_C2);
  off += 2;
  for(size_t i = 0; i < VC_R2; i++) for(size_t j = 0; j < VC_C2; j++) { double sv = ser->data[off++]; VC_CHECK("block 1 cells follow in row-major order", VC_SAME(sv, b[i][j])); }
  VC_REACH();
}

void h_list_roundtrip(void)
{
  /* two vectors of lengths VC_R and VC_C (either may be empty) */
  dvectorlist *l, *back;
  dvector *v, *ser;
  double a[GMAX], b[GMAX];
  initDVectorList(&l); initDVectorList(&back); initDVector(&ser);
  NewDVector(&v, VC_R); for(size_t i = 0; i < VC_R; i++) { a[i] = VC_IN_DBL(); v->data[i] = a[i]; } DVectorListAppend(l, v); DelDVector(&v);
  NewDVector(&v, VC_C); for(size_t i = 0; i < VC_C; i++) { b[i] = VC_IN_DBL(); v->data[i] = b[i]; } DVectorListAppend(l, v); DelDVector(&v);
  serialize_dvectorlist(l, ser);
  VC_CHECK("serialised list has sum(1 + length) entries", ser->size == 2 + (size_t)VC_R + VC_C);
  deserialize_dvectorlist(ser, back);
  VC_CHECK("list read back has the written number of vectors and lengths", back->size == 2 && back->d[0]->size == VC_R && back->d[1]->size == VC_C);
  for(size_t i = 0; i < VC_R; i++) VC_CHECK("list vector 0 read back equal", VC_SAME(back->d[0]->data[i], a[i]));
  for(size_t i = 0; i < VC_C; i++) VC_CHECK("list vector 1 read back equal", VC_SAME(back->d[1]->data[i], b[i]));
  VC_REACH();
}
