/* C17: the two steps of a k-means iteration on their real bodies, bounded shapes, symbolic data.
 *  - labelling (worker and single-thread routine, ring mode: + - * only, polynomial identities hold in Z/256): every
 *    object of the slice gets a label in range that minimises the squared distance to the centroids (first minimum),
 *    objects outside the slice keep their label, worker == single-thread; sqrt enters by contract as a strictly
 *    increasing function (instantiated as the identity), so the routine may compare distances or their squares;
 *  - centroid update (IEEE mode on exact instances: small integer cells, clusters of 1 or 2 objects, so every
 *    mathematically equivalent evaluation returns the same double): each centroid is the mean of the objects carrying
 *    its label; a cluster without objects takes the coordinates of an in-range object chosen by the generator. */
#include "vc.h"
#ifndef VC_R
#define VC_R 3
#endif
#ifndef VC_C
#define VC_C 1
#endif
#ifndef VC_K
#define VC_K 2
#endif
#ifndef VC_LAB
#define VC_LAB {0, 1, 0}
#endif
#ifdef VC_CBMC
/* sqrt by contract: a strictly increasing function.  The arg-min over centroids depends only on the order of the
 * distances, which every strictly increasing function preserves (one-line lemma), so it is instantiated as the identity;
 * the specification below is stated on squared distances and holds whether or not the routine takes the root. */
#include <math.h>
#undef sqrt
#define sqrt(x) (x)
#endif
static size_t rnd_idx, rnd_calls;
static int vc_randInt(int lo, int hi)
{
  rnd_calls++;
  size_t v = VC_IN_SIZE();
  VC_ASSUME(v >= (size_t)lo && v < (size_t)hi);
  rnd_idx = v;
  return (int)v;
}
#define randInt vc_randInt
#include "clustering.c"

#ifdef VC_RING
/* ring mode (double := Z/256): polynomial identities only (no division) */
static double fin(void)
{
  int8_t v = (int8_t)vc_in_u64();
  VC_ASSUME(v >= -8 && v <= 7); /* small cells keep the 8-bit multipliers cheap; squares still wrap for two variables */
  return (double)v;
}
#else
/* exact instances: small integers, so that sums, differences and divisions by 1, 2 or 4 are exactly representable and
 * every mathematically equivalent evaluation (other order, reciprocal multiplication, running mean) gives the same double */
static double fin(void)
{
  uint64_t v = vc_in_u64();
  VC_ASSUME(v <= 3);
  return (double)v;
}
#endif

/* squared distance of object i to centroid k (the definition; the routine may or may not take its square root) */
static double dist2(matrix *m, matrix *c, size_t i, size_t k)
{
  double t = 0.f;
  for(size_t j = 0; j < m->col; j++)
    t += (m->data[i][j] - c->data[k][j]) * (m->data[i][j] - c->data[k][j]);
  return t;
}

void h_kmeans_labels(void)
{
  matrix *m, *c;
  uivector *lw, *ls;
  NewMatrix(&m, VC_R, VC_C);
  NewMatrix(&c, VC_K, VC_C);
  for(size_t i = 0; i < VC_R; i++)
    for(size_t j = 0; j < VC_C; j++)
      m->data[i][j] = fin();
  for(size_t k = 0; k < VC_K; k++)
    for(size_t j = 0; j < VC_C; j++)
      c->data[k][j] = fin();
  NewUIVector(&lw, VC_R);
  NewUIVector(&ls, VC_R);
  for(size_t i = 0; i < VC_R; i++)
    lw->data[i] = 77;
  size_t from = VC_IN_SIZE(), to = VC_IN_SIZE();
  VC_ASSUME(from <= to && to <= VC_R);
  labels_th_arg a;
  a.m = m; a.centroids = c; a.labels = lw; a.from = (int)from; a.to = (int)to;
  getLabelsWorker(&a);
  getLabels(m, c, ls);
  for(size_t i = 0; i < VC_R; i++) {
    if(i >= from && i < to) {
      size_t L = lw->data[i];
      VC_CHECK("k-means label is a cluster in range", L < VC_K);
      if(L < VC_K)
        for(size_t k = 0; k < VC_K; k++) {
          VC_CHECK("k-means label is a nearest centroid: no centroid is closer", !(dist2(m, c, i, k) < dist2(m, c, i, L)));
          if(k < L)
            VC_CHECK("k-means label is the first nearest centroid", dist2(m, c, i, k) > dist2(m, c, i, L));
        }
      VC_CHECK("labelling worker == single-thread labelling (labels do not depend on the slicing)", lw->data[i] == ls->data[i]);
    } else
      VC_CHECK("labelling worker leaves the objects outside its slice alone", lw->data[i] == 77);
  }
  VC_REACH();
}

void h_kmeans_centroids(void)
{
  static const size_t lab[] = VC_LAB;
  matrix *m, *c;
  uivector *l;
  NewMatrix(&m, VC_R, VC_C);
  NewMatrix(&c, VC_K, VC_C);
  NewUIVector(&l, VC_R);
  for(size_t i = 0; i < VC_R; i++) {
    l->data[i] = lab[i];
    for(size_t j = 0; j < VC_C; j++)
      m->data[i][j] = fin();
  }
  for(size_t k = 0; k < VC_K; k++)
    for(size_t j = 0; j < VC_C; j++)
      c->data[k][j] = fin();
  rnd_calls = 0;
  getCentroids(m, l, &c);
  VC_CHECK("centroid table keeps its shape: clusters x variables", c->row == VC_K && c->col == VC_C);
  size_t empty = 0;
  for(size_t k = 0; k < VC_K; k++) {
    size_t n = 0;
    for(size_t i = 0; i < VC_R; i++)
      n += (lab[i] == k);
    if(n == 0)
      empty++;
    for(size_t j = 0; j < VC_C; j++) {
      if(n > 0) {
        double s = 0.0;
        for(size_t i = 0; i < VC_R; i++)
          if(lab[i] == k)
            s += m->data[i][j];
        s /= (double)n;
        VC_CHECK("centroid = mean of the objects carrying its label", VC_SAME(c->data[k][j], s));
      } else if(empty == 1 && rnd_calls == 1)
        VC_CHECK("centroid of an empty cluster = coordinates of an in-range object", rnd_idx < VC_R && VC_SAME(c->data[k][j], m->data[rnd_idx][j]));
    }
  }
  VC_CHECK("one generator draw per empty cluster", rnd_calls == empty);
  for(size_t i = 0; i < VC_R; i++)
    VC_CHECK("labels are not modified by the centroid update", l->data[i] == lab[i]);
  VC_REACH();
}
