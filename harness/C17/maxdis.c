/* C17: the greedy max-min selection of MaxDis on its real body (clustering.c included), bounded number of objects.
 * Distances enter as oracles with arbitrary recorded values (so the result holds for every metric): `square` returns
 * the squared centroid distance of the object being scanned (one variable, sqrt is the identity on these tags), and
 * CalculateDistance returns an arbitrary matrix.  Decided: indices in range, pairwise distinct, count = min(n, objects);
 * the first index is the (first) arg-max of the centroid distances; each further index maximises the minimum recorded
 * distance to the already selected objects among the remaining ones (first maximum on ties). */
#include "vc.h"
#include <pthread.h>
#include "matrix.h"
#include "vector.h"
#include "metricspace.h"
#include "memwrapper.h"
#ifndef VC_NOBJ
#define VC_NOBJ 4
#endif
#ifndef VC_NSEL
#define VC_NSEL 3
#endif
#define GMAX 8
static size_t sq_calls;
static double cdist[GMAX];            /* oracle centroid distance of object i */
static double vc_square(double x)
{
  (void)x;
  size_t c = sq_calls++;
  double v = VC_IN_DBL();
  VC_ASSUME(v >= 0.0 && v < 1e6);
  /* MaxDis scans object 0 first, then objects 1..n-1, one `square` per object because there is one variable */
  if(c < GMAX) cdist[c] = v;
  return v;
}
static size_t cd_calls;
static double D[GMAX][GMAX][GMAX];    /* D[call][selected k][remaining i] */
static size_t Drow[GMAX], Dcol[GMAX];
static void vc_CalculateDistance(matrix *m1, matrix *m2, matrix *d, size_t nth, enum cmethod met)
{
  (void)nth; (void)met;
  size_t c = cd_calls++;
  ResizeMatrix(d, m2->row, m1->row);
  if(c < GMAX) { Drow[c] = m2->row; Dcol[c] = m1->row; }
  for(size_t k = 0; k < d->row; k++)
    for(size_t i = 0; i < d->col; i++) {
      double v = VC_IN_DBL();
      VC_ASSUME(v >= 0.0 && v < 1e6);
      d->data[k][i] = v;
      if(c < GMAX && k < GMAX && i < GMAX) D[c][k][i] = v;
    }
}
/* MaxDis builds the operand matrices of the distance call row by row; their contents only reach the distance oracle, so the
 * row copies are replaced by shape-only bookkeeping (keeps the number of heap objects, and the solver's memory, small) */
static dvector vc_row1;
static dvector *vc_getMatrixRow(matrix *m, size_t r) { VC_CHECK("row requested from the data matrix is in range", r < m->row); vc_row1.size = m->col; vc_row1.data = NULL; return &vc_row1; }
static void vc_MatrixAppendRow(matrix *m, dvector *row) { m->row += 1; m->col = row->size; }
static void vc_DelDVector(dvector **d) { if(*d != &vc_row1) (DelDVector)(d); }
static void vc_DelMatrix(matrix **m) { if((*m)->data == NULL) { xfree(*m); } else (DelMatrix)(m); }
#define getMatrixRow(m, r) vc_getMatrixRow(m, r)
#define MatrixAppendRow(m, r) vc_MatrixAppendRow(m, r)
#define DelDVector(d) vc_DelDVector(d)
#define DelMatrix(m) vc_DelMatrix(m)
#define square vc_square
#define CalculateDistance vc_CalculateDistance
#include <math.h>
#define sqrt(x) (x)
#include "clustering.c"
#undef sqrt

void h_MaxDis(void)
{
  matrix *m;
  uivector *sel;
  NewMatrix(&m, VC_NOBJ, 1);
  for(size_t i = 0; i < VC_NOBJ; i++)
    m->data[i][0] = (double)i;       /* row tag; values only reach the oracles */
  initUIVector(&sel);
  sq_calls = 0; cd_calls = 0;
  MaxDis(m, VC_NSEL, 0, sel, 2);
  size_t want = VC_NSEL > VC_NOBJ ? VC_NOBJ : VC_NSEL;
  VC_CHECK("MaxDis: returns the requested number of objects (at most all of them)", sel->size == want);
  int used[GMAX] = {0};
  for(size_t s = 0; s < sel->size && s < GMAX; s++) {
    VC_CHECK("MaxDis: index in range", sel->data[s] < VC_NOBJ);
    if(sel->data[s] < VC_NOBJ) {
      VC_CHECK("MaxDis: indices pairwise distinct", !used[sel->data[s]]);
      used[sel->data[s]] = 1;
    }
  }
  /* first element: first arg-max of the centroid distances */
  if(sel->size > 0) {
    size_t best = 0;
    for(size_t i = 1; i < VC_NOBJ; i++)
      if(cdist[i] > cdist[best]) best = i;
    VC_CHECK("MaxDis: the first element is the object farthest from the centroid", sel->data[0] == best);
  }
  /* every further element: arg-max over the remaining objects of the minimum distance to the selected ones */
  int taken[GMAX] = {0};
  if(sel->size > 0 && sel->data[0] < VC_NOBJ) taken[sel->data[0]] = 1;
  for(size_t s = 1; s < sel->size && s < GMAX; s++) {
    size_t c = s - 1;                      /* distance oracle call used for this step */
    VC_CHECK("MaxDis: distances asked between the remaining objects and the selected ones", Drow[c] == s && Dcol[c] == VC_NOBJ - s);
    size_t rem[GMAX], nr = 0;
    for(size_t i = 0; i < VC_NOBJ; i++)
      if(!taken[i]) rem[nr++] = i;
    size_t bestj = 0; double bestv = 0;
    for(size_t j = 0; j < nr; j++) {
      double mn = D[c][0][j];
      for(size_t k = 1; k < s; k++)
        if(D[c][k][j] < mn) mn = D[c][k][j];
      if(j == 0 || mn > bestv) { bestv = mn; bestj = j; }
    }
    VC_CHECK("MaxDis: next element maximises the minimum distance to those already chosen", nr > 0 && sel->data[s] == rem[bestj]);
    if(sel->data[s] < VC_NOBJ) taken[sel->data[s]] = 1;
  }
  VC_REACH();
}
