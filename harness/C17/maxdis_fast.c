/* C17: MaxDis_Fast on its real body against the same greedy max-min specification as MaxDis, with the condensed distance
 * vector an oracle of arbitrary recorded pair distances (hence every metric) and the centroid distances oracles as in
 * maxdis.c.  The real condensed index map is used by the code; the specification indexes pairs with its own formula. */
#include "vc.h"
#include <pthread.h>
#include "matrix.h"
#include "vector.h"
#include "metricspace.h"
#ifndef VC_NOBJ
#define VC_NOBJ 3
#endif
#ifndef VC_NSEL
#define VC_NSEL 3
#endif
#define GMAX 8
static size_t sq_calls;
static double cdist[GMAX], pd[GMAX][GMAX];
static double vc_square(double x)
{
  (void)x;
  size_t c = sq_calls++;
  double v = VC_IN_DBL();
  VC_ASSUME(v >= 0.0 && v < 1e6);
  if(c < GMAX) cdist[c] = v;
  return v;
}
static void vc_condensed(matrix *m, dvector *d, size_t nth)
{
  (void)nth;
  size_t n = m->row, pos = 0;
  DVectorResize(d, n * (n - 1) / 2);
  for(size_t i = 0; i < n; i++)
    for(size_t j = i + 1; j < n; j++) {
      double v = VC_IN_DBL();
      VC_ASSUME(v >= 0.0 && v < 1e6);
      d->data[pos++] = v;            /* row-major strict upper triangle: the documented condensed layout */
      if(i < GMAX && j < GMAX) { pd[i][j] = v; pd[j][i] = v; }
    }
}
#define square vc_square
#define EuclideanDistanceCondensed vc_condensed
#define ManhattanDistanceCondensed vc_condensed
#define CosineDistanceCondensed vc_condensed
#include <math.h>
#define sqrt(x) (x)
#include "clustering.c"
#undef sqrt

void h_MaxDis_Fast(void)
{
  matrix *m;
  uivector *sel;
  NewMatrix(&m, VC_NOBJ, 1);
  initUIVector(&sel);
  sq_calls = 0;
  MaxDis_Fast(m, VC_NSEL, 0, sel, 2);
  VC_CHECK("MaxDis_Fast: returns the requested number of objects", sel->size == VC_NSEL);
  int taken[GMAX] = {0};
  if(sel->size > 0) {
    size_t best = 0;
    for(size_t i = 1; i < VC_NOBJ; i++)
      if(cdist[i] > cdist[best]) best = i;
    VC_CHECK("MaxDis_Fast: the first element is the object farthest from the centroid", sel->data[0] == best);
  }
  for(size_t s = 0; s < sel->size && s < GMAX; s++) {
    VC_CHECK("MaxDis_Fast: index in range", sel->data[s] < VC_NOBJ);
    if(sel->data[s] >= VC_NOBJ) break;
    VC_CHECK("MaxDis_Fast: indices pairwise distinct", !taken[sel->data[s]]);
    if(s > 0) {
      size_t bestj = GMAX; double bestv = 0;
      for(size_t i = 0; i < VC_NOBJ; i++) {
        if(taken[i]) continue;
        double mn = pd[i][sel->data[0]];
        for(size_t k = 1; k < s; k++)
          if(pd[i][sel->data[k]] < mn) mn = pd[i][sel->data[k]];
        if(bestj == GMAX || mn > bestv) { bestv = mn; bestj = i; }
      }
      VC_CHECK("MaxDis_Fast: next element maximises the minimum distance to those already chosen", sel->data[s] == bestj);
    }
    taken[sel->data[s]] = 1;
  }
  VC_REACH();
}
