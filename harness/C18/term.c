/* C18: termination as an explicit iteration bound that does not depend on a floating-point convergence test.
 * The real loop bodies run (pca.c / pls.c / clustering.c / optimization.c included); every numerical callee is an
 * adversarial oracle (the convergence measure is NaN, centroids never settle, the objective is arbitrary), so the
 * loop can only end through an iteration counter.  Closed by unwinding with unwinding assertions: a loop that
 * passes has a data-independent bound <= the unwinding depth; a loop that fails has none. */
#include "vc.h"
#include <pthread.h>
#include "matrix.h"
#include "vector.h"
#include "tensor.h"
#define GMAX 8
static size_t conv_calls, oracle_calls;
static double nan_value(void) { double z = 0.0; return z / z; }

#if defined(VC_UNIT_PCA) || defined(VC_UNIT_PLS)
#ifdef VC_CBMC
/* adversarial numerical callees */
#ifdef VC_UNIT_PLS
static double vc_calcConvergence(dvector *a, dvector *b) { (void)a; (void)b; conv_calls++; return nan_value(); }
#define calcConvergence vc_calcConvergence
#endif
static void vc_noop_mv(matrix *m, dvector *v, dvector *p) { (void)m; (void)v; (void)p; oracle_calls++; }
static double vc_dot(dvector *a, dvector *b) { (void)a; (void)b; return nan_value(); }
static void vc_norm(dvector *a, dvector *b) { (void)a; (void)b; }
static void vc_colvar(matrix *m, dvector *v) { for(size_t j = 0; j < m->col; j++) DVectorAppend(v, 0.0); }
static void vc_prep(matrix *o, int t, dvector *a, dvector *s, matrix *tr) { (void)o; (void)t; (void)a; (void)s; (void)tr; }
#define MT_DVectorMatrixDotProduct vc_noop_mv
#define MT_MatrixDVectorDotProduct vc_noop_mv
#define MatrixDVectorDotProduct vc_noop_mv
#define DVectorMatrixDotProduct vc_noop_mv
#define DVectorDVectorDotProd vc_dot
#define DVectNorm vc_norm
#define MatrixColVar vc_colvar
#define MatrixPreprocess vc_prep
#endif
#endif

#ifdef VC_UNIT_PCA
#include "pca.c"
void h_nipals_PCA(void)
{
  /* natively: the real callees on an all-zero (rank 0) matrix, one component requested */
  matrix *m;
  NewMatrix(&m, 2, 2);
  PCAMODEL *model;
  NewPCAModel(&model);
  PCA(m, 0, 1, model, NULL);
  VC_REACH();
}
#endif

#ifdef VC_UNIT_PLS
#include "pls.c"
void h_nipals_LVCalc(void)
{
  matrix *x, *y;
  dvector *t, *u, *p, *q, *w;
  double b;
  NewMatrix(&x, 2, 2); NewMatrix(&y, 2, 1);
  NewDVector(&t, 2); NewDVector(&u, 2); NewDVector(&p, 2); NewDVector(&q, 1); NewDVector(&w, 2);
  LVCalc(x, y, t, u, p, q, w, &b);
  VC_REACH();
}
#endif

#ifdef VC_UNIT_KMEANS
/* getLabels_ / getCentroids are defined in clustering.c itself: under the verifier their bodies are removed and the
 * adversarial versions of stubs/c18_stubs.c are linked; natively the real ones run */
#ifdef VC_CBMC
extern size_t vc_cent_calls;
#else
static size_t vc_cent_calls;
#endif
static int vc_randInt(int lo, int hi) { (void)hi; return lo; }
#define randInt vc_randInt
#include "clustering.c"
void h_kmeans_bound(void)
{
  matrix *m;
  uivector *lab;
  NewMatrix(&m, 2, 1);
  m->data[0][0] = 0.0; m->data[1][0] = 5.0;
  initUIVector(&lab);
  vc_cent_calls = 0;
  KMeans(m, 1, 0, lab, NULL, 1);
  VC_CHECK("k-means stops after its iteration ceiling although the centroids never settle", vc_cent_calls <= 102);
  VC_REACH();
}
#endif

#ifdef VC_UNIT_SIMPLEX
#include "optimization.c"
static size_t f_calls;
static double objective(dvector *x) { (void)x; f_calls++; double v = VC_IN_DBL(); return v; }
#ifndef VC_ITER
#define VC_ITER 3
#endif
void h_simplex_bound(void)
{
  dvector *x0, *step, *best;
  NewDVector(&x0, 1); NewDVector(&step, 1); initDVector(&best);
  x0->data[0] = 1.0; step->data[0] = 0.5;
  f_calls = 0;
  /* xtol negative: the tolerance test can never end the loop, only the iteration counter can */
  (void)NelderMeadSimplex((double (*)())objective, x0, step, -1.0, VC_ITER, best);
  VC_CHECK("simplex: at most (n+1) initial + iter*(n+3) objective evaluations", f_calls <= 2 + (size_t)VC_ITER * 4);
  VC_CHECK("simplex: returns a point of the right dimension", best->size == 1);
  VC_REACH();
}
#endif
