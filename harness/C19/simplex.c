/* C19: NelderMeadSimplex on its real body (optimization.c included), dimension 1, bounded iteration budget.  The objective is
 * an arbitrary deterministic function: an oracle that returns an arbitrary value for a new point and the recorded value
 * for a point it has seen.  Decided (comparison logic of reflect / expand / contract / shrink and of the final sort):
 * the value reported is the objective value of the returned point, and it is never worse than the best vertex of the
 * initial simplex. */
#include "vc.h"
#include "optimization.c"
#ifndef VC_ITER
#define VC_ITER 2
#endif
#define RMAX 24
static size_t ncalls;
static double px[RMAX], pv[RMAX];
static double objective(dvector *x)
{
  double p = x->data[0];
  for(size_t k = 0; k < ncalls && k < RMAX; k++)
    if(px[k] == p)
      return pv[k];                 /* deterministic: same point, same value */
  double v = VC_IN_DBL();
  VC_ASSUME(v > -1e6 && v < 1e6);   /* finite objective */
  if(ncalls < RMAX) { px[ncalls] = p; pv[ncalls] = v; }
  ncalls++;
  return v;
}

void h_simplex_value(void)
{
  dvector *x0, *step, *best;
  NewDVector(&x0, 1); NewDVector(&step, 1); initDVector(&best);
  x0->data[0] = 1.0; step->data[0] = 0.5;
  ncalls = 0;
  double res = NelderMeadSimplex((double (*)())objective, x0, step, 1e-9, VC_ITER, best);
  VC_CHECK("simplex: the oracle table was large enough", ncalls <= RMAX);
  VC_CHECK("simplex: returns a point of the problem's dimension", best->size == 1);
  int found = 0;
  for(size_t k = 0; k < ncalls && k < RMAX; k++)
    if(px[k] == best->data[0]) {
      found = 1;
      VC_CHECK("simplex: the reported value is the objective value of the returned point", pv[k] == res);
    }
  VC_CHECK("simplex: the returned point is one the objective was evaluated at", found);
  /* the initial simplex is the start point and the start point displaced by the step: the first two evaluations */
  VC_CHECK("simplex: the result is never worse than the best vertex of the initial simplex", ncalls < 2 || (res <= pv[0] && res <= pv[1]));
  VC_REACH();
}
