/* C19: piece selection of cubic_spline_predict and table layout / index safety of cubic_spline_interpolation on
 * the real bodies.  Piece selection is made observable with a coefficient table whose piece j is the constant
 * polynomial j (a precondition-selected instance): for strictly increasing knots of ANY spacing >= 1e-4 and any x strictly
 * inside piece j, the evaluation must return j.  Comparisons and multiplications by the constant 0 only. */
#include "vc.h"
#include "matrix.h"
#include "vector.h"
#include "numeric.h"
#include "interpolate.h"
#ifndef VC_P
#define VC_P 3 /* pieces (rows of the coefficient table) */
#endif
#ifndef VC_J
#define VC_J 1 /* ghost piece */
#endif
#ifndef VC_NPTS
#define VC_NPTS 4
#endif

void h_piece_selection(void)
{
  matrix *S;
  NewMatrix(&S, VC_P, 5);
  double k[VC_P + 1];
  for(size_t j = 0; j < VC_P; j++) {
    k[j] = VC_IN_DBL();
    VC_ASSUME(k[j] > -1e4 && k[j] < 1e4);
    if(j > 0)
      VC_ASSUME(k[j] - k[j - 1] >= 1e-4);   /* strictly increasing, spacing from 1e-4 up (the property's range) */
    S->data[j][0] = k[j];
    S->data[j][1] = (double)j;               /* piece j is the constant j */
  }
  double x = VC_IN_DBL();
  VC_ASSUME(x > k[VC_J] && x < 2e4);
  if(VC_J + 1 < VC_P)
    VC_ASSUME(x < k[VC_J + 1]);              /* strictly inside piece VC_J (the last piece extends to the right) */
  dvector *xs, *ys;
  NewDVector(&xs, 1);
  initDVector(&ys);
  xs->data[0] = x;
  cubic_spline_predict(xs, S, ys);
  VC_CHECK("prediction vector has one value per abscissa", ys->size == 1);
  VC_CHECK("x strictly inside piece j is evaluated with the coefficients of piece j, whatever the knot spacing", ys->data[0] == (double)VC_J);
  VC_REACH();
}

void h_table_layout(void)
{
  /* strictly increasing abscissae, arbitrary ordinates: the table has one row per interval, column 0 = left knot,
   * column 1 = ordinate; every VLA index in bounds (pointer checks) */
  matrix *xy, *S;
  NewMatrix(&xy, VC_NPTS, 2);
  initMatrix(&S);
  double xs[VC_NPTS], ysv[VC_NPTS];
  for(size_t i = 0; i < VC_NPTS; i++) {
    xs[i] = VC_IN_DBL(); ysv[i] = VC_IN_DBL();
    VC_ASSUME(xs[i] > -1e4 && xs[i] < 1e4 && ysv[i] > -1e6 && ysv[i] < 1e6);
    if(i > 0)
      VC_ASSUME(xs[i] - xs[i - 1] >= 1e-4);
    xy->data[i][0] = xs[i]; xy->data[i][1] = ysv[i];
  }
  cubic_spline_interpolation(xy, S);
  VC_CHECK("coefficient table: one row per interval, five columns", S->row == VC_NPTS - 1 && S->col == 5);
  for(size_t i = 0; i + 1 < VC_NPTS; i++) {
    VC_CHECK("table column 0 holds the left knot of the piece", S->data[i][0] == xs[i]);
    VC_CHECK("table column 1 holds the ordinate at the left knot (the spline passes through the point)", S->data[i][1] == ysv[i]);
  }
  VC_REACH();
}

/* "Reproduces straight lines exactly" on exact instances: knot spacings 1 or 2, integer slope -2..2 and intercept 0..1.
 * Every divided difference is then exact, the right-hand side of the tridiagonal system is exactly zero, so every natural-
 * spline algorithm returns c = d = 0 and b = slope exactly, and the evaluation at multiples of 1/2 is the line itself. */
#ifdef VC_LINE
void h_line_reproduction(void)
{
  matrix *xy, *S;
  dvector *xq, *yq;
  NewMatrix(&xy, VC_NPTS, 2);
  initMatrix(&S);
  uint64_t u0 = vc_in_u64(), us = vc_in_u64(), ui = vc_in_u64();
  VC_ASSUME(u0 <= 1 && us <= 4 && ui <= 1);
  double x0 = (double)u0, slope = (double)us - 2.0, icpt = (double)ui;
  double xs[VC_NPTS];
  for(size_t i = 0; i < VC_NPTS; i++) {
    if(i == 0)
      xs[i] = x0;
    else {
      uint64_t h = vc_in_u64();
      VC_ASSUME(h == 1 || h == 2);
      xs[i] = xs[i - 1] + (double)h;
    }
    xy->data[i][0] = xs[i];
    xy->data[i][1] = slope * xs[i] + icpt;
  }
  cubic_spline_interpolation(xy, S);
  VC_CHECK("coefficient table: one row per interval", S->row == VC_NPTS - 1 && S->col == 5);
  for(size_t i = 0; i + 1 < VC_NPTS; i++)
    VC_CHECK("spline of collinear points is the line: b = slope, c = d = 0 on every piece", S->data[i][2] == slope && S->data[i][3] == 0.0 && S->data[i][4] == 0.0);
  /* evaluation at a multiple of 1/2 inside the knot range */
  uint64_t k = vc_in_u64();
  VC_ASSUME(k <= 4 * VC_NPTS);
  double x = x0 + 0.5 * (double)k;
  VC_ASSUME(x <= xs[VC_NPTS - 1]);
  NewDVector(&xq, 1); initDVector(&yq);
  xq->data[0] = x;
  cubic_spline_predict(xq, S, yq);
  VC_CHECK("the spline reproduces a straight line exactly", yq->size == 1 && yq->data[0] == slope * x + icpt);
  VC_REACH();
}
#endif
