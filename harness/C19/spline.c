/* C19: piece selection of cubic_spline_predict and table layout / index safety of cubic_spline_interpolation on
 * the real bodies.  Piece selection is made observable with a coefficient table whose piece j is the constant
 * polynomial j (a precondition-selected instance): for strictly increasing knots of ANY spacing >= 1e-4 and any x strictly
 * inside piece j, the evaluation must return j.  Comparisons and multiplications by the constant 0 only. */
#include "vc.h"
#include "matrix.h"
#include "vector.h"
#include "numeric.h"
#include "interpolate.h"
#ifndef VC_P
#define VC_P 3 /* pieces (rows of the coefficient table) */
#endif
#ifndef VC_J
#define VC_J 1 /* ghost piece */
#endif
#ifndef VC_NPTS
#define VC_NPTS 4
#endif

void h_piece_selection(void)
{
  matrix *S;
  NewMatrix(&S, VC_P, 5);
  double k[VC_P + 1];
  for(size_t j = 0; j < VC_P; j++) {
    k[j] = VC_IN_DBL();
    VC_ASSUME(k[j] > -1e4 && k[j] < 1e4);
    if(j > 0)
      VC_ASSUME(k[j] - k[j - 1] >= 1e-4);   /* strictly increasing, spacing from 1e-4 up (the property's range) */
    S->data[j][0] = k[j];
    S->data[j][1] = (double)j;               /* piece j is the constant j */
  }
  double x = VC_IN_DBL();
  VC_ASSUME(x > k[VC_J] && x < 2e4);
  if(VC_J + 1 < VC_P)
    VC_ASSUME(x < k[VC_J + 1]);              /* strictly inside piece VC_J (the last piece extends to the right) */
  dvector *xs, *ys;
  NewDVector(&xs, 1);
  initDVector(&ys);
  xs->data[0] = x;
  cubic_spline_predict(xs, S, ys);
  VC_CHECK("prediction vector has one value per abscissa", ys->size == 1);
  VC_CHECK("x strictly inside piece j is evaluated with the coefficients of piece j, whatever the knot spacing", ys->data[0] == (double)VC_J);
  VC_REACH();
}

void h_table_layout(void)
{
  /* strictly increasing abscissae, arbitrary ordinates: the table has one row per interval, column 0 = left knot,
   * column 1 = ordinate; every VLA index in bounds (pointer checks) */
  matrix *xy, *S;
  NewMatrix(&xy, VC_NPTS, 2);
  initMatrix(&S);
  double xs[VC_NPTS], ysv[VC_NPTS];
  for(size_t i = 0; i < VC_NPTS; i++) {
    xs[i] = VC_IN_DBL(); ysv[i] = VC_IN_DBL();
    VC_ASSUME(xs[i] > -1e4 && xs[i] < 1e4 && ysv[i] > -1e6 && ysv[i] < 1e6);
    if(i > 0)
      VC_ASSUME(xs[i] - xs[i - 1] >= 1e-4);
    xy->data[i][0] = xs[i]; xy->data[i][1] = ysv[i];
  }
  cubic_spline_interpolation(xy, S);
  VC_CHECK("coefficient table: one row per interval, five columns", S->row == VC_NPTS - 1 && S->col == 5);
  for(size_t i = 0; i + 1 < VC_NPTS; i++) {
    VC_CHECK("table column 0 holds the left knot of the piece", S->data[i][0] == xs[i]);
    VC_CHECK("table column 1 holds the ordinate at the left knot (the spline passes through the point)", S->data[i][1] == ysv[i]);
  }
  VC_REACH();
}
