/* C19: trapezoid area of a polyline (curve_area with intervals = 0) on exact instances: integer abscissae/ordinates 0..3,
 * so every base*height term (a multiple of 1/2) and their sums are exactly representable and the obligation does not depend
 * on the evaluation order.  Decided: area == sum_i (x[i+1]-x[i]) * (y[i]+y[i+1]) / 2 over consecutive points (every point
 * used once as a left and once as a right end), additivity over every split point, input unchanged. */
#include "vc.h"
#include "matrix.h"
#include "numeric.h"
#ifndef VC_N
#define VC_N 3
#endif
static double small_cell(void)
{
  uint64_t v = vc_in_u64();
  VC_ASSUME(v <= 3);
  return (double)v;
}
void h_trapezoid(void)
{
  matrix *xy, *left, *right;
  double x[8], y[8];
  NewMatrix(&xy, VC_N, 2);
  for(size_t i = 0; i < VC_N; i++) {
    x[i] = xy->data[i][0] = small_cell();
    y[i] = xy->data[i][1] = small_cell();
    if(i > 0)
      VC_ASSUME(x[i] >= x[i - 1]); /* a polyline over non-decreasing abscissae */
  }
  double area = curve_area(xy, 0);
  double def = 0;
  for(size_t i = 0; i + 1 < VC_N; i++)
    def += (x[i + 1] - x[i]) * (y[i] + y[i + 1]) / 2;
  VC_CHECK("trapezoid area == exact integral of the polyline: sum (x[i+1]-x[i]) * (y[i]+y[i+1]) / 2", area == def);
  for(size_t i = 0; i < VC_N; i++)
    VC_CHECK("curve_area does not modify its input", xy->data[i][0] == x[i] && xy->data[i][1] == y[i]);
  /* additivity over the split at point k (1 <= k <= n-2): rows 0..k and rows k..n-1 */
  for(size_t k = 1; k + 1 < VC_N; k++) {
    NewMatrix(&left, k + 1, 2);
    NewMatrix(&right, VC_N - k, 2);
    for(size_t i = 0; i <= k; i++) { left->data[i][0] = x[i]; left->data[i][1] = y[i]; }
    for(size_t i = k; i < VC_N; i++) { right->data[i - k][0] = x[i]; right->data[i - k][1] = y[i]; }
    double al = curve_area(left, 0), ar = curve_area(right, 0);
    VC_CHECK("trapezoid area is additive over sub-ranges", al + ar == area);
    DelMatrix(&left);
    DelMatrix(&right);
  }
  VC_REACH();
}
