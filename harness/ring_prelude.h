/* ring_prelude.h - "ring mode": the unit is compiled with every `double` of the library replaced by ring_t
 * (int8_t with wrap-around, i.e. the ring Z/256), so that + - * are exact, associative and distributive and
 * two evaluation orders of the same polynomial are decided to be equal by bit-level reasoning.
 * All system headers are included first so that their own uses of `double` are untouched.
 * What this drops: rounding, NaN/Inf/MISSING filtering branches (constant false on integers). */
#ifndef VC_RING_PRELUDE_H
#define VC_RING_PRELUDE_H
#include <stdio.h>
#include <stdlib.h>
#include <stdint.h>
#include <stddef.h>
#include <string.h>
#include <math.h>
#include <time.h>
#include <ctype.h>
#include <pthread.h>
#include <unistd.h>
#include <float.h>
#include <limits.h>
typedef int8_t ring_t; /* (__CPROVER_bitvector[8] was tried: cbmc 6.11 did not finish 8-bit distributivity in 19 minutes) */
/* classification macros reject integer operands; on ring values they are constant */
#undef isfinite
#define isfinite(x) (1)
#undef isnan
#define isnan(x) (0)
#undef isinf
#define isinf(x) (0)
#define VC_RING 1
#define double ring_t
#endif
