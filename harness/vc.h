/* vc.h - harness support shared by the verifier build (-DVC_CBMC) and the native
 * replay build (-DVC_NATIVE).
 *
 * Every harness input is drawn through vc_in_*(): under CBMC that is a
 * nondeterministic value which is also stored into a trace variable, so the JSON
 * counterexample yields the complete input vector in draw order; natively the
 * same calls read that vector back from the file named by $VC_REPLAY_INPUT.
 *
 * VC_ASSUME  : input constraint (requires-shaped); native: exit 78 when false.
 * VC_CHECK   : replayable mirror of a postcondition; CBMC assertion / native test.
 * VC_REACH   : vacuity witness - an assertion that MUST FAIL under CBMC.
 */
#ifndef VC_H
#define VC_H
#include <stddef.h>
#include <stdint.h>
#include <stdlib.h>
#include <string.h>

#if defined(VC_CBMC)

uint64_t vc_trace_u64;
double vc_trace_f64;
uint64_t nondet_vc_u64(void);
double nondet_vc_f64(void);
static inline uint64_t vc_in_u64(void)
{
  uint64_t v = nondet_vc_u64();
  vc_trace_u64 = v;
  return v;
}
static inline double vc_in_f64(void)
{
  double v = nondet_vc_f64();
  vc_trace_f64 = v;
  return v;
}
#define VC_ASSUME(c) __CPROVER_assume(c)
#define VC_CHECK(id, c) __CPROVER_assert((c), "VC_CHECK " id)
#define VC_REACH() __CPROVER_assert(0, "VC_REACH witness (must fail)")
#define VC_NATIVE_ONLY(x)
#define VC_CBMC_ONLY(x) x
/* malloc that never fails in the harness (library allocation failure is an abort
 * inside xmalloc and is explored by the verifier) */
static inline void *vc_alloc(size_t n)
{
  void *p = malloc(n ? n : 1);
  __CPROVER_assume(p != NULL);
  return p;
}

#else /* native replay */

#include <stdio.h>
static FILE *vc_in_file;
static int vc_failed;
static int vc_exhausted;
static inline uint64_t vc_next_bits(void)
{
  char kind[8];
  unsigned long long bits = 0;
  if(!vc_in_file) {
    const char *p = getenv("VC_REPLAY_INPUT");
    vc_in_file = p ? fopen(p, "r") : NULL;
  }
  if(!vc_in_file || fscanf(vc_in_file, "%7s %llx", kind, &bits) != 2) {
    vc_exhausted++;
    return 0;
  }
  return (uint64_t)bits;
}
static inline uint64_t vc_in_u64(void) { return vc_next_bits(); }
static inline double vc_in_f64(void)
{
  uint64_t b = vc_next_bits();
  double d;
  memcpy(&d, &b, sizeof d);
  /* second replay attempt for modular counterexamples: the verifier's cell values were chosen against callee
   * contracts, the real numerical callees may not terminate or may not produce them; keep shapes, integers and
   * ghost indices of the counterexample and draw generic, well-conditioned cell values instead */
  if(getenv("VC_REPLAY_NICE")) {
    static uint64_t st = 0x9E3779B97F4A7C15ull;
    st = st * 6364136223846793005ull + 1442695040888963407ull;
    d = (double)((st >> 33) % 200001) / 10000.0 - 10.0 + (double)((st >> 20) % 97) / 1000.0;
  }
  return d;
}
#define VC_ASSUME(c)                                                     \
  do {                                                                   \
    if(!(c)) {                                                           \
      printf("VC_ASSUME_FALSE %s:%d %s\n", __FILE__, __LINE__, #c);      \
      fflush(stdout);                                                    \
      _Exit(78);                                                         \
    }                                                                    \
  } while(0)
#define VC_CHECK(id, c)                                                  \
  do {                                                                   \
    if(!(c)) {                                                           \
      printf("VC_CHECK_FAILED %s\n", id);                                \
      fflush(stdout);                                                    \
      vc_failed = 1;                                                     \
    }                                                                    \
  } while(0)
#define VC_REACH()                                                       \
  do {                                                                   \
    printf("VC_REACHED exhausted=%d\n", vc_exhausted);                   \
    fflush(stdout);                                                      \
  } while(0)
#define VC_NATIVE_ONLY(x) x
#define VC_CBMC_ONLY(x)
static inline void *vc_alloc(size_t n)
{
  void *p = calloc(n ? n : 1, 1);
  if(!p) _Exit(79);
  return p;
}
#ifndef VC_ENTRY
#error "native replay build needs -DVC_ENTRY=<harness function>"
#endif
void VC_ENTRY(void);
int main(void)
{
  VC_ENTRY();
  return vc_failed ? 1 : 0;
}
#endif

#define VC_IN_SIZE() ((size_t)vc_in_u64())
/* ghost cell index: arbitrary, but small enough that pointer arithmetic with it cannot wrap */
#define VC_GHOST_K()                          \
  do {                                        \
    vc_k = VC_IN_SIZE();                      \
    VC_ASSUME(vc_k <= ((size_t)1 << 21));     \
  } while(0)
#define VC_IN_INT() ((int)(int64_t)vc_in_u64())
#define VC_IN_DBL() vc_in_f64()
/* NaN-tolerant bitwise-style equality for data movement obligations */
#define VC_SAME(a, b) (((a) == (b)) || (((a) != (a)) && ((b) != (b))))

#endif
