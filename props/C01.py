from run import Job

MANIFEST = dict(
    category="other",
    text="Bookkeeping of the PCA routines decided on the real bodies for bounded concrete shapes: PCA() preprocesses once with the requested "
         "option into the model's own vectors, sizes scores/loadings/dmodx as objects|variables x components with the component count clamped to "
         "the variable count, stores one explained-variance entry per component and does not modify its input; PCAScorePredictor applies the stored averages/scalings, projects component pc on loadings column pc and hands the accumulating product kernel a zeroed score vector for every component; PCAIndVarPredictor returns "
         "objects x variables, clamps the component count and back-transforms as (sum of score*loading) * stored scale + stored mean (ring mode).",
    note="All numerical callees of PCA() are recording oracles (preprocessing, column variances, NIPALS products, norms, convergence). Orthonormal "
         "loadings, score = projection, residual orthogonality, variance monotonicity / sum to 100, reconstruction and reproduction of training scores "
         "are statements about the fixed point of the floating-point NIPALS iteration and are not decided. Bounded shapes (<= 3 x 3, <= 3 components).",
    technique="CBMC on the real PCA / PCAIndVarPredictor bodies with recording oracles; ring mode for the back-transform; bounded shapes")

META = dict(decided="PCA model shapes, npc clamp, varexp size, single preprocessing call, input unchanged; IndVarPredictor shape/clamp/back-transform",
            not_decided="orthonormality, projection, residual orthogonality, explained-variance values, reconstruction, training-score reproduction (numerical)",
            trusted_base=["recording oracles in harness/C01/pca_structure.c", "ring-mode polynomial identity lemma"], assumptions=[])

S = ["matrix.c", "vector.c", "memwrapper.c", "numeric.c", "tensor.c", "list.c"]

def jobs(tier):
    J = []
    for (r, c, npc) in ([(2, 2, 2), (3, 2, 3), (2, 3, 1)] if tier == "quick" else [(2, 2, 2), (3, 2, 3), (2, 3, 1), (3, 3, 2), (1, 2, 2)]):
        J.append(Job("PCA@r=%d,c=%d,npc=%d" % (r, c, npc), "C01/pca_structure.c", entry="h_PCA", srcs=S + ["preprocessing.c"], kind="bounded",
                     defines={"VC_UNIT_PCA": None, "VC_CONVERGED_AT_ONCE": None, "VC_R": r, "VC_C": c, "VC_NPC": npc}, unwind=max(r, c, npc) + 4, functions=["PCA", "calcVarExpressed"],
                     remove_bodies=["calcConvergence"], stubs=["stubs/c18_stubs.c"],
                     cbmc_flags=["--slice-formula"], timeout=900, bound="%dx%d data, %d components requested; data and all oracle values symbolic" % (r, c, npc),
                     clause="PCA(): shapes, npc clamp, varexp size, one preprocessing call with the requested option, input unchanged"))
    for (r, c, npc, req, scaled) in ([(2, 2, 2, 1, 1), (2, 2, 2, 3, 1), (2, 1, 2, 2, 0)] if tier == "quick" else
                                     [(2, 2, 2, 1, 2), (2, 2, 2, 3, 1), (2, 1, 2, 2, 0), (2, 2, 3, 2, 2), (1, 2, 2, 2, 2)]):
        for gi in range(r):
            for gj in range(c):
                d = {"VC_UNIT_PRED": None, "VC_R": r, "VC_C": c, "VC_NPC": npc, "VC_REQ": req, "VC_SCALED": scaled, "VC_GI": gi, "VC_GJ": gj}
                J.append(Job("PCAIndVarPredictor@r=%d,c=%d,npc=%d,req=%d,scaled=%d,g=%d%d" % (r, c, npc, req, scaled, gi, gj), "C01/pca_structure.c", entry="h_PCAIndVarPredictor",
                             srcs=S + ["pca.c", "preprocessing.c"], mode="ring", kind="bounded", defines=d, unwind=max(r, c, npc) + 4, functions=["PCAIndVarPredictor"],
                             bound="%d objects, %d variables, %d stored / %d requested components, ghost cell (%d,%d); values symbolic in Z/256" % (r, c, npc, req, gi, gj),
                             clause="IndVarPredictor: shape, component clamp, back-transform (accumulate, scale, add mean)"))
    for (r, c, npc, req) in ([(2, 2, 2, 2), (2, 2, 2, 3), (3, 1, 1, 1), (1, 2, 2, 1)] if tier == "quick" else [(2, 2, 2, 2), (2, 2, 2, 3), (3, 1, 1, 1), (1, 2, 2, 1), (2, 3, 3, 3)]):
        d = {"VC_UNIT_SCORE": None, "VC_R": r, "VC_C": c, "VC_NPC": npc, "VC_REQ": req}
        J.append(Job("PCAScorePredictor@r=%d,c=%d,npc=%d,req=%d" % (r, c, npc, req), "C01/pca_structure.c", entry="h_PCAScorePredictor", srcs=S + ["preprocessing.c"], kind="bounded",
                     defines=d, unwind=max(r, c, npc) + 4, functions=["PCAScorePredictor"], cbmc_flags=["--slice-formula"], timeout=900,
                     bound="%d objects, %d variables, %d stored / %d requested components; loadings symbolic" % (r, c, npc, req),
                     clause="ScorePredictor: shape, clamp, stored averages/scalings applied, loadings column pc for component pc, zeroed accumulator for every component"))
    # with stored scalings the three-factor product (score*loading)*scale did not finish even at 1x1x1: shape / clamp / memory safety only
    for (r, c, npc, req) in [(2, 2, 2, 1), (1, 2, 1, 3)]:
        d = {"VC_UNIT_PRED": None, "VC_R": r, "VC_C": c, "VC_NPC": npc, "VC_REQ": req, "VC_SCALED": 2, "VC_GI": 9, "VC_GJ": 9}
        J.append(Job("PCAIndVarPredictor_shape@r=%d,c=%d,npc=%d,req=%d,scaled=2" % (r, c, npc, req), "C01/pca_structure.c", entry="h_PCAIndVarPredictor",
                     srcs=S + ["pca.c", "preprocessing.c"], mode="ring", kind="bounded", defines=d, unwind=max(r, c, npc) + 4, functions=["PCAIndVarPredictor"],
                     bound="%d objects, %d variables, %d stored / %d requested components, stored means and scalings; values in Z/256" % (r, c, npc, req),
                     clause="IndVarPredictor with stored scalings: shape, component clamp, in-bounds"))
    return J
