from run import Job

MANIFEST = dict(
    category="other",
    text="Structural clauses of C03 decided on the real PLS() and PLSYPredictorAllLV() bodies for bounded concrete shapes with all values symbolic: "
         "model field shapes, nlv clamp, component pc stored in column pc of every score/loading/weight table, recalculated responses laid "
         "out LV-major (column ny*a+j), and stored recalculation residual = recalculated - matching observed response for every response "
         "and every a; PLSYPredictor's prediction formula ((sum over the latent variables used of b*score*yloading) * y scaling + y average) and PLSScorePredictor's wiring "
         "are decided on their real bodies (the formula on exact instances: integer cells 0..3, independent of the evaluation order). Heavy numerical callees enter through contract-derived stubs. Orthogonality / reconstruction identities are floating-"
         "point fixed-point statements and are not decided (DESIGN 4 C03).",
    note="Bounded: shapes n<=3, xcols<=2, ny<=2..3, nlv<=2..3 enumerated one solver call each. LVCalc, MatrixPreprocess, calcVarExpressed "
         "(and PLSYPredictor in the quick tier) are represented by assumed contracts (stubs/pls_stubs.c): arbitrary values of the promised shape. "
         "Postconditions are asserted by the harness around the real function; PLS()'s frame is not enforced.",
    technique="CBMC on the real PLS() body with contract-derived callee stubs; postconditions as harness assertions; bounded shapes")

META = dict(decided="shapes, nlv clamp, component storage columns, LV-major layout of recalculated_y, residual = recalculated - matching response",
            not_decided="orthogonality of scores/weights, X = TP'+E numerically, re-projection reproduces scores (floating-point fixed point)",
            trusted_base=["contracts of LVCalc / MatrixPreprocess / calcVarExpressed / PLSYPredictor used as stubs (stubs/pls_stubs.c): the shape part of LVCalc's is checked on its real body by LVCalc_contract, MatrixPreprocess's stored-vector sizes by C10; value parts are arbitrary"], assumptions=[])

SRCS = ["pls.c", "matrix.c", "vector.c", "memwrapper.c", "numeric.c", "tensor.c", "list.c"]
RB = ["LVCalc", "MatrixPreprocess", "calcVarExpressed"]

def pls_job(n, xc, ny, nlv, stub_yp, tier, inst="A"):
    d = {"VC_N": n, "VC_XC": xc, "VC_NY": ny, "VC_NLV": nlv}
    if stub_yp:
        d["VC_STUB_YPRED"] = None
    d["VC_ZERO_Y" if inst == "A" else "VC_ZERO_PRED"] = None
    tag = "n=%d,xc=%d,ny=%d,nlv=%d,%s%s" % (n, xc, ny, nlv, inst, "" if stub_yp else ",realYpred")
    return Job("PLS_structure@" + tag, "C03/pls_structure.c", entry="h_PLS_structure", srcs=SRCS, kind="bounded",
               defines=d, remove_bodies=RB + (["PLSYPredictor"] if stub_yp else []), stubs=["stubs/pls_stubs.c"],
               unwind=max(n, xc, ny * nlv, 2) + 3, tier=tier, timeout=1500 if not stub_yp else None,
               bound="concrete shape %s; all matrix values symbolic (finite, non-missing); residual identity split into instance A "
                     "(observed responses = 0: residual == recalculated) and instance B (recalculated = 0: residual == -observed), because "
                     "the solver cannot prove a-b == a-b through memory for two fully symbolic IEEE operands" % tag,
               functions=["PLS"], clause="PLS(): shapes, component storage, LV-major recalculated_y, residual column = matching response")

def jobs(tier):
    J = []
    for (n, xc, ny, nlv) in [(2, 2, 2, 2), (2, 2, 1, 2), (2, 1, 2, 2), (3, 2, 2, 1), (2, 2, 3, 2), (1, 2, 2, 2)]:
        J.append(pls_job(n, xc, ny, nlv, True, "quick", "A"))
        J.append(pls_job(n, xc, ny, nlv, True, "quick", "B"))
    for (n, xc, ny, nlv) in [(2, 2, 2, 2), (3, 1, 1, 3), (2, 2, 3, 1)]:
        d = {"VC_N": n, "VC_XC": xc, "VC_NY": ny, "VC_NLV": nlv, "VC_UNIT_ALLLV": None, "VC_STUB_YPRED": None, "VC_STUB_SCOREPRED": None}
        tag = "n=%d,xc=%d,ny=%d,nlv=%d" % (n, xc, ny, nlv)
        J.append(Job("PLSYPredictorAllLV@" + tag, "C03/pls_structure.c", entry="h_PLSYPredictorAllLV", srcs=SRCS, kind="bounded", defines=d,
                     remove_bodies=RB + ["PLSYPredictor", "PLSScorePredictor"], stubs=["stubs/pls_stubs.c"], unwind=max(n, xc, ny * nlv, 2) + 3,
                     functions=["PLSYPredictorAllLV"], bound="concrete shape %s; predictions arbitrary (recording stubs)" % tag,
                     clause="PLSYPredictorAllLV: LV-major layout (column ny*lv+j = response j with lv+1 latent variables), shapes, one score prediction"))
    for (n, xc, ny) in [(2, 2, 2), (3, 1, 1), (2, 2, 3)]:
        J.append(Job("LVCalc_contract@n=%d,xc=%d,ny=%d" % (n, xc, ny), "C03/lvcalc.c", entry="h_LVCalc_contract", srcs=["matrix.c", "vector.c", "memwrapper.c", "numeric.c", "tensor.c", "list.c"],
                     kind="bounded", defines={"VC_N": n, "VC_XC": xc, "VC_NY": ny}, unwind=max(n, xc, ny) + 4, functions=["LVCalc"], timeout=900,
                     bound="%d objects, %d predictors, %d responses; Y symbolic, product kernels recording oracles" % (n, xc, ny),
                     clause="LVCalc: kernel operand wiring, zeroed output before every accumulating product, start column = largest-variance response, output sizes and block shapes preserved (enforce-run of the LVCalc stub's contract)"))
    SP = ["matrix.c", "vector.c", "memwrapper.c", "numeric.c", "tensor.c", "list.c"]
    for (n, xc, nlv, req) in [(2, 2, 2, 2), (2, 2, 2, 3), (3, 1, 1, 1), (1, 2, 2, 1)]:
        J.append(Job("PLSScorePredictor@n=%d,xc=%d,nlv=%d,req=%d" % (n, xc, nlv, req), "C03/scorepred.c", entry="h_PLSScorePredictor", srcs=SP, kind="bounded",
                     defines={"VC_N": n, "VC_XC": xc, "VC_NLV": nlv, "VC_REQ": req}, unwind=max(n, xc, nlv) + 4, functions=["PLSScorePredictor"], cbmc_flags=["--slice-formula"], timeout=900,
                     bound="%d objects, %d predictors, %d stored / %d requested latent variables; weights symbolic" % (n, xc, nlv, req),
                     clause="PLSScorePredictor: stored preprocessing applied, weights column pc for component pc, zeroed accumulator, scores stored in column pc, shape/clamp"))
    for (n, ny, nlv, req) in [(2, 2, 2, 3), (3, 1, 2, 1)]:
        J.append(Job("PLSYPredictor_shape@n=%d,ny=%d,nlv=%d,req=%d" % (n, ny, nlv, req), "C03/scorepred.c", entry="h_PLSYPredictor_shape", srcs=SP, kind="bounded",
                     defines={"VC_N": n, "VC_NY": ny, "VC_NLV": nlv, "VC_REQ": req}, unwind=max(n, ny, nlv) + 4, functions=["PLSYPredictor"], cbmc_flags=["--slice-formula"], timeout=900,
                     bound="%d objects, %d responses, %d score columns / %d requested" % (n, ny, nlv, req),
                     clause="PLSYPredictor: output shape, latent-variable clamp, in-bounds (enforce-run of the shape part of its stub contract)"))
    for (n, ny, nlv, req, scaled) in ([(2, 2, 2, 1, 1), (1, 2, 2, 3, 1), (2, 1, 2, 2, 0)] if tier == "quick" else [(2, 2, 2, 1, 1), (1, 2, 2, 3, 1), (2, 1, 2, 2, 0), (2, 2, 2, 2, 1), (2, 2, 3, 2, 0)]):
        J.append(Job("PLSYPredictor_values@n=%d,ny=%d,nlv=%d,req=%d,scaled=%d" % (n, ny, nlv, req, scaled), "C03/scorepred.c", entry="h_PLSYPredictor_values", srcs=SP, kind="bounded",
                     defines={"VC_N": n, "VC_NY": ny, "VC_NLV": nlv, "VC_REQ": req, "VC_SCALED": scaled}, unwind=max(n, ny, nlv) + 4, functions=["PLSYPredictor"], timeout=900,
                     bound="%d objects, %d responses, %d score columns / %d requested; cells symbolic in {0,1,2,3} (IEEE, exact instances)" % (n, ny, nlv, req),
                     clause="PLSYPredictor: prediction = (sum over the latent variables used of b*score*yloading) * stored y scaling + stored y average (exact instances: independent of the evaluation order)"))
    if tier == "thorough":
        for (n, xc, ny, nlv) in [(3, 3, 2, 3), (2, 3, 3, 3), (3, 2, 3, 2)]:
            J.append(pls_job(n, xc, ny, nlv, True, "thorough", "A"))
            J.append(pls_job(n, xc, ny, nlv, True, "thorough", "B"))
        J.append(pls_job(2, 2, 2, 2, False, "thorough"))
    return J
