from run import Job

MANIFEST = dict(
    category="other",
    text="Fold construction and cross-validation data flow (leave-one-out, k-fold with user labels, bootstrap driver) decided on the real bodies for bounded concrete shapes with symbolic data: the random "
         "group table is a partition of the objects (every object in exactly one cell, for group counts that do not divide the object count); "
         "the split puts exactly the group's rows in the test part and exactly the other rows in the training part, with every response "
         "column, including more responses than predictors; in LeaveOneOut and in KFoldCV with user labels (unbalanced, non-contiguous) each worker is started with training operands equal to the data "
         "minus the held-out object(s) and the test operand equal to that object, each object is held out exactly once for every thread count, "
         "the stored prediction is that worker's output, residual = prediction - matching response. Learners enter by contract (they read "
         "only the operands they are given), which is what makes the prediction out-of-sample.",
    note="Bounded shapes (objects <= 5, predictors <= 2, responses <= 3, threads <= 4). Learners (PLS/MLR) are represented by their contract "
         "through a pthread monitor; determinism of the learner is assumed. BootstrapRandomGroupsCV is checked for worker count, seeding, private outputs and output wiring (worker bodies enter by contract; their building blocks, the split and the group generator, are checked separately). Termination of the rejection loop is not decided. "
         "'Equals a model refitted through the public API' as a numerical equality and finiteness of predictions are not decided.",
    technique="CBMC on the real cross-validation bodies with a pthread monitor playing the learner contract; loop contract on the rejection loop; bounded shapes")

META = dict(decided="group table is a partition; split = exact row selection with all response columns; LOO operands exclude exactly the held-out object; each object once; prediction/residual wiring",
            not_decided="numerical equality with a refit through the public API; finiteness; k-fold and bootstrap drivers (only their building blocks); termination of the rejection loop",
            trusted_base=["pthread monitor = learner contract (harness/C05/cv.c)", "oracle randInt in [low,high)"], assumptions=["learners are deterministic functions of their operands"])

SRCS = ["matrix.c", "vector.c", "memwrapper.c", "numeric.c"]

def jobs(tier):
    J = []
    # LeaveOneOut: (nobj, xc, ny, nlv, nth)
    # include object counts with a second batch whose later threads are used (objects >= 2*nthreads)
    cfgs = [(3, 2, 2, 0, 2), (3, 2, 2, 2, 2), (4, 2, 1, 0, 3), (2, 1, 2, 0, 1), (3, 2, 2, 2, 4), (4, 1, 1, 0, 2), (5, 1, 1, 0, 2)] if tier == "quick" else \
           [(3, 2, 2, 0, 2), (3, 2, 2, 2, 2), (4, 2, 1, 0, 3), (2, 1, 2, 0, 1), (3, 2, 2, 2, 4), (4, 1, 1, 0, 2), (5, 1, 1, 0, 2), (4, 2, 2, 2, 3), (4, 1, 3, 0, 2), (4, 2, 2, 1, 1), (6, 1, 1, 0, 3), (5, 2, 2, 1, 2)]
    for (n, xc, ny, nlv, nth) in cfgs:
        for inst in ("A", "B"):
            d = {"VC_NOBJ": n, "VC_XC": xc, "VC_NY": ny, "VC_NLV": nlv, "VC_NTH": nth, ("VC_ZERO_Y" if inst == "A" else "VC_ZERO_PRED"): None}
            tag = "n=%d,xc=%d,ny=%d,nlv=%d,nth=%d,%s" % (n, xc, ny, nlv, nth, inst)
            J.append(Job("LeaveOneOut@" + tag, "C05/cv.c", entry="h_LeaveOneOut", srcs=SRCS, kind="bounded", defines=d, unwind=max(n, xc, ny * max(nlv, 1), nth) + 3,
                         functions=["LeaveOneOut"], bound="concrete shape/thread count %s; data symbolic; residual identity split A (y=0) / B (prediction=0)" % tag,
                         clause="LOO: training operands = data minus held-out object, each object once, prediction and residual wiring (%s learner)" % ("PLS" if nlv else "MLR")))
    # KFoldCV with user labels: unbalanced, non-contiguous (an unused label value gives an empty fold), one fold only
    # labels starting at 1 / with gaps leave empty folds in the middle of a thread round
    kcfg = [("{0,2,0,2}", 4, 2), ("{1,1,0,1}", 4, 3), ("{0,0,0}", 3, 2), ("{2,0,1,1,0}", 5, 2), ("{1,2,1,2}", 4, 2), ("{1,3,3,1}", 4, 3)] if tier == "quick" else \
           [("{0,2,0,2}", 4, 2), ("{1,1,0,1}", 4, 3), ("{0,0,0}", 3, 2), ("{2,0,1,1,0}", 5, 2), ("{1,2,1,2}", 4, 2), ("{1,3,3,1}", 4, 3), ("{0,1,2,3}", 4, 4), ("{3,0,0,3}", 4, 1)]
    for (lab, n, nth) in kcfg:
        for (xc, ny, nlv) in [(2, 1, 0), (2, 2, 2)]:
            for inst in ("A", "B"):
                d = {"VC_NOBJ": n, "VC_XC": xc, "VC_NY": ny, "VC_NLV": nlv, "VC_NTH": nth, "VC_LAB": lab, ("VC_ZERO_Y" if inst == "A" else "VC_ZERO_PRED"): None}
                tag = "labels=%s,xc=%d,ny=%d,nlv=%d,nth=%d,%s" % (lab.replace(",", ""), xc, ny, nlv, nth, inst)
                J.append(Job("KFoldCV@" + tag, "C05/cv.c", entry="h_KFoldCV", srcs=SRCS, kind="bounded", defines=d, unwind=max(n, xc, ny * max(nlv, 1), nth) + 4,
                             functions=["KFoldCV", "kfold_group_train_test_split"], bound="user labels %s, thread count %d; data symbolic; residual identity split A/B" % (lab, nth),
                             clause="k-fold with user labels: folds are a partition, each worker gets exactly the other folds, prediction and residual wiring (%s learner)" % ("PLS" if nlv else "MLR")))
    for (n, nth, it, grp) in ([(3, 2, 2, 2), (3, 1, 3, 3), (3, 3, 3, 2), (2, 2, 3, 2)] if tier == "quick" else [(3, 2, 2, 2), (3, 1, 3, 3), (3, 3, 3, 2), (2, 2, 3, 2), (4, 2, 4, 3), (3, 4, 4, 2)]):
        d = {"VC_NOBJ": n, "VC_NTH": nth, "VC_ITER": it, "VC_GROUP": grp}
        tag = "n=%d,nth=%d,iter=%d,groups=%d" % (n, nth, it, grp)
        J.append(Job("Bootstrap@" + tag, "C05/bootstrap.c", entry="h_Bootstrap", srcs=SRCS, kind="bounded", defines=d, unwind=max(n, it + nth, 4) + 3,
                     functions=["BootstrapRandomGroupsCV"], bound="concrete configuration %s (MLR learner), data symbolic" % tag,
                     clause="bootstrap driver: worker count, per-worker seed = base + global index, private zeroed outputs, shared inputs, output shapes, residual wiring"))
    # split: (nobj, xc, ny, G, K)
    for (n, xc, ny, g, k) in ([(4, 1, 2, 2, 2), (3, 2, 3, 3, 1), (4, 2, 1, 2, 3), (2, 1, 3, 1, 2)] if tier == "quick" else
                              [(4, 1, 2, 2, 2), (3, 2, 3, 3, 1), (4, 2, 1, 2, 3), (2, 1, 3, 1, 2), (5, 1, 2, 3, 2), (4, 2, 3, 4, 1)]):
      for lay in (0, 1, 2):
        d = {"VC_NOBJ": n, "VC_XC": xc, "VC_NY": ny, "VC_G": g, "VC_K": k, "VC_LAYOUT": lay}
        tag = "n=%d,xc=%d,ny=%d,G=%d,K=%d,layout=%d" % (n, xc, ny, g, k, lay)
        J.append(Job("kfold_split@" + tag, "C05/split.c", entry="h_kfold_split", srcs=SRCS, kind="bounded", defines=d, unwind=max(n, xc, ny, g, k) * 2 + 3,
                     functions=["kfold_group_train_test_split"], bound="concrete shapes and group-table layout %s (held-out group symbolic), data symbolic" % tag,
                     clause="split: test = rows of the group, train = rows of the other groups, all response columns (also ny > xcols), disjoint and exhaustive"))
    for (n, g) in ([(4, 2), (3, 2), (4, 3), (2, 3), (3, 1)] if tier == "quick" else [(4, 2), (3, 2), (4, 3), (2, 3), (3, 1), (5, 2), (5, 3), (4, 4)]):
        d = {"VC_NOBJ": n, "VC_G": g}
        tag = "n=%d,G=%d" % (n, g)
        J.append(Job("group_generator@" + tag, "C05/split.c", entry="h_group_generator", srcs=SRCS, kind="bounded", defines=d, unwind=max(n, g) + 3,
                     functions=["random_kfold_group_generator", "ValInMatrix"],
                     bound="concrete (objects, groups) %s incl. non-dividing counts; every draw arbitrary in [0,nobj), at most one rejected draw in a row (termination assumption)" % tag,
                     clause="random group table is a partition: every object in exactly one cell, the rest -1"))
    return J
