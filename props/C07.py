from run import Job

MANIFEST = dict(
    category="other",
    text="Structure of MLR()/MLRPredictY() decided on the real bodies for bounded shapes with symbolic data: the design matrix handed to the "
         "least-squares solver has a leading column of ones and predictor j in column j+1, there is one solve per response with that response's "
         "column, the coefficient table is (predictors+1) x responses with column k = coefficients of response k, predictions equal "
         "intercept + X*b on coefficient instances where the formula is exact in IEEE arithmetic, residual = prediction - observed, one R2/SDEC per response.",
    note="The least-squares solver (OrdinaryLeastSquares) and the column average are oracles; optimality (normal equations), exact recovery, "
         "equivariance, R2 in [0,1] and the numerical values of R2/SDEC are not decided. Bounded shapes (objects <= 3, predictors <= 2, responses <= 2).",
    technique="CBMC on the real MLR / MLRPredictY bodies with recording oracle solver; exact-IEEE coefficient instances; bounded shapes")

META = dict(decided="design matrix layout, one solve per response, coefficient table layout, prediction formula on exact instances, residual sign/operands, output shapes",
            not_decided="least-squares optimality, exact recovery, equivariance, R2 = 1-RSS/TSS numerically and in [0,1], SDEC = sqrt(RSS/n) numerically",
            trusted_base=["oracle OrdinaryLeastSquares / MatrixColAverage in harness/C07/mlr_wiring.c"], assumptions=[])

S = ["matrix.c", "vector.c", "memwrapper.c", "numeric.c", "tensor.c", "list.c", "statistic.c"]

def jobs(tier):
    J = []
    for (n, xc, ny) in ([(2, 1, 2), (2, 2, 1), (3, 2, 2)] if tier == "quick" else [(2, 1, 2), (2, 2, 1), (3, 2, 2), (3, 3, 2), (3, 1, 3)]):
        base = {"VC_N": n, "VC_XC": xc, "VC_NY": ny}
        insts = [("I0", {}), ("I1", {"VC_INST_I1": None})] + [("U%d" % j0, {"VC_INST_U": None, "VC_J0": j0}) for j0 in range(xc)]
        for inst, extra in insts:
            if tier == "quick" and n >= 3 and inst.startswith("U"):
                continue    # the unit-slope instance at 3x2x2 did not finish in 600 s; thorough tier only
            J.append(Job("MLR@n=%d,xc=%d,ny=%d,%s" % (n, xc, ny, inst), "C07/mlr_wiring.c", entry="h_MLR", srcs=S, kind="bounded", defines=dict(base, **extra),
                         advisory=(n >= 3 and inst.startswith("U")),
                         unwind=max(n, (xc + 1) * ny, ny) + 3, functions=["MLR", "MLRPredictY"], timeout=600, cbmc_flags=["--slice-formula"],
                         bound="%d objects, %d predictors, %d responses; data symbolic; coefficient instance %s (I0: all 0; I1: intercept symbolic, responses 0; Uj: unit slope on predictor j)" % (n, xc, ny, inst),
                         clause="MLR wiring (design matrix, one solve per response, coefficient table); prediction = intercept + X*b on an exact instance; residual = prediction - observed"))
    return J
