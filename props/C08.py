from run import Job

MANIFEST = dict(
    category="other",
    text="Class bookkeeping of LDA() (class numbering from 0 or 1, priors = class frequencies, class means taken over exactly the objects of the class) and label/index arithmetic of LDA prediction and multiclass statistics decided on the real function bodies for bounded concrete shapes, "
         "for labels numbered from 0 and from 1: every access in bounds, the returned label lies in the training label range and maximises the "
         "stored discriminant score, the per-class ROC/PR routines receive the one-vs-rest indicators of the true and of the predicted labels. "
         "Numerical kernels are oracle functions returning arbitrary recorded values, so the result holds for every value they could produce.",
    note="Bounded shapes (objects <= 3, features <= 2, classes <= 3). Dot products, log/exp/sqrt, ROC and PrecisionRecall are harness oracles "
         "(assumed contracts: arbitrary non-NaN values; arguments recorded). Affine invariance, perfect separation and AUC values are numerical and not decided.",
    technique="CBMC on the real LDAPrediction / LDAMulticlassStatistics bodies with oracle callees; postconditions as harness assertions; bounded shapes")

META = dict(decided="in-bounds label/index arithmetic for 0- and 1-based labels, label range, arg-max, one-vs-rest wiring of the ROC/PR calls",
            not_decided="numerical values of the class means, priors summing to 1 in floating point, affine invariance, perfect separation, AUC = 1 (numerical)",
            trusted_base=["oracle callees in harness/C08/lda_labels.c"], assumptions=["discriminant scores are not NaN"])

SRCS = ["matrix.c", "vector.c", "memwrapper.c", "numeric.c", "tensor.c", "list.c", "statistic.c", "algebra.c", "preprocessing.c", "metricspace.c", "pca.c"]

def jobs(tier):
    J = []
    shapes = [(2, 2, 3, 1), (1, 1, 2, 1), (3, 2, 2, 2)] if tier == "quick" else [(2, 2, 3, 1), (1, 1, 2, 1), (3, 2, 2, 2), (2, 1, 4, 2), (3, 2, 3, 1)]
    for (nobj, nf, ncl, ne) in shapes:
        for cs in (0, 1):
            d = {"VC_NOBJ": nobj, "VC_NF": nf, "VC_NCLASS": ncl, "VC_NE": ne, "VC_CSTART": cs}
            tag = "nobj=%d,nf=%d,ncl=%d,ne=%d,start=%d" % (nobj, nf, ncl, ne, cs)
            J.append(Job("LDAPrediction@" + tag, "C08/lda_labels.c", entry="h_LDAPrediction", srcs=SRCS, kind="bounded", defines=d,
                         unwind=max(nobj, nf, ncl, ne) + 3, functions=["LDAPrediction"],
                         bound="concrete shape %s; all scores arbitrary (oracle)" % tag,
                         clause="prediction: in-bounds, label in training range, arg-max of stored scores (labels from %d)" % cs))
    for (nobj, ncl) in ([(3, 3), (2, 2), (4, 3)] if tier == "quick" else [(3, 3), (2, 2), (4, 3), (4, 2), (3, 2)]):
        d = {"VC_NOBJ": nobj, "VC_NCLASS": ncl}
        tag = "nobj=%d,ncl=%d" % (nobj, ncl)
        J.append(Job("LDAMulticlassStatistics@" + tag, "C08/lda_labels.c", entry="h_LDAMulticlassStatistics", srcs=SRCS, kind="bounded", defines=d,
                     unwind=max(nobj, ncl) + 3, functions=["LDAMulticlassStatistics", "getNClasses"],
                     bound="concrete sizes %s; labels symbolic in [0,ncl)" % tag,
                     clause="per-class ROC/PR receive one-vs-rest indicators of true and predicted labels; one AUC per class"))
    for (lab, n, nf) in ([("{0,1,0,1}", 4, 2), ("{1,2,2,1,2}", 5, 2), ("{2,1,3,1}", 4, 1), ("{0,0,1}", 3, 2)] if tier == "quick" else
                         [("{0,1,0,1}", 4, 2), ("{1,2,2,1,2}", 5, 2), ("{2,1,3,1}", 4, 1), ("{0,0,1}", 3, 2), ("{1,1,2,3,3}", 5, 3), ("{0,2,1,0,2,1}", 6, 2)]):
        d = {"VC_NOBJ": n, "VC_NF": nf, "VC_LAB": lab}
        tag = "labels=%s,nf=%d" % (lab.replace(",", ""), nf)
        J.append(Job("LDA_bookkeeping@" + tag, "C08/lda_fit.c", entry="h_LDA_bookkeeping", srcs=SRCS, kind="bounded", defines=d, unwind=n + 4, timeout=900, object_bits=12,
                     cbmc_flags=["--slice-formula"], functions=["LDA"], bound="labels %s, %d features; features symbolic, numerical callees oracles" % (lab, nf),
                     clause="LDA(): class numbering, class-id grouping, priors = class frequencies, class means = per-class averages (operands), table shapes"))
    return J
