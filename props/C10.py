from run import Job

MANIFEST = dict(
    category="other",
    text="Decided on the real MatrixPreprocess / MatrixColumnMinMax bodies for bounded shapes: for every option the stored scaling is the statistic "
         "the option promises (routing of sd / rms / sqrt(sd) / max-min / mean / 1, with the statistic routines as tagged oracles), one average and "
         "one scaling per column, option -1 copies and stores nothing; every transformed cell equals (cell - stored average) / stored scaling, at fit and when the stored vectors are "
         "applied to new data (arbitrary cell values; the oracle statistics are powers of two, so the formula is one rounding however it is evaluated), and applying re-estimates nothing; fit followed by apply on the same data agree on the zero-spread decision "
         "for every scaling value in the property's domain (spread >= 0.02 or exactly 0) and zero-spread columns become exactly 0; the column "
         "min/max ignores missing-coded cells in any position and bounds/attains the remaining cells; tensor preprocessing is matrix preprocessing applied block by block.",
    note="Bounded shapes. That the transformed columns have unit standard deviation / zero mean follows from this formula together with the statistics' own "
         "definitions (C11 decides those on exact instances); as a floating-point statement on general data it is not decided. Statistic routines other than min/max enter as oracles here; ",
    technique="CBMC on the real preprocessing bodies with tagged oracle statistics; comparisons-only obligations on the real min/max; bounded shapes")

META = dict(decided="option -> statistic routing; transformed cell = (cell - stored average) / stored scaling at fit and apply; stored vector shapes; option -1 copy; zero-spread guard consistency fit/apply on the property's domain; min/max ignore missing cells",
            not_decided="numerical column statistics of the transformed data; apply-path handling of missing cells",
            trusted_base=["tagged oracle statistics in harness/C10/prep.c"], assumptions=[])

S = ["matrix.c", "vector.c", "memwrapper.c", "numeric.c", "tensor.c", "list.c"]

def jobs(tier):
    J = []
    for t in (-1, 0, 1, 2, 3, 4, 5):
        for (r, c) in ([(2, 2)] if tier == "quick" else [(2, 2), (1, 3), (3, 1)]):
            J.append(Job("dispatch@type=%d,r=%d,c=%d" % (t, r, c), "C10/prep.c", entry="h_dispatch", srcs=S, kind="bounded", defines={"VC_TYPE": t, "VC_R": r, "VC_C": c},
                         unwind=max(r, c) + 3, functions=["MatrixPreprocess"], bound="concrete shape %dx%d, option %d; data symbolic, statistics tagged oracles" % (r, c, t),
                         clause="option %d: stored scaling = promised statistic; one average/scaling per column" % t))
    J.append(Job("zero_guard@domain", "C10/prep.c", entry="h_zero_guard", srcs=S, kind="bounded", defines={"VC_SPREAD_DOMAIN": None}, unwind=4, functions=["MatrixPreprocess"],
                 bound="1x1 matrix; scaling value symbolic in {0} U [0.02, 1e6)", timeout=900,
                 clause="fit and apply make the same zero-spread decision on the property's domain; zero-spread column becomes exactly 0"))
    J.append(Job("zero_guard@any-scale", "C10/prep.c", entry="h_zero_guard", srcs=S, kind="bounded", defines={}, unwind=4, functions=["MatrixPreprocess"],
                 bound="1x1 matrix; scaling value symbolic in (-1e6, 1e6) (level scaling stores the column mean, which the spread domain does not restrict)", timeout=900,
                 clause="fit and apply make the same zero-spread decision for every stored scaling value"))
    for order in ((1, 2, 3) if tier == "quick" else (1, 2, 3, 4)):
        J.append(Job("TensorPreprocess@order=%d" % order, "C10/prep.c", entry="h_TensorPreprocess", srcs=S, kind="bounded", defines={"VC_TENSOR_JOB": None, "VC_ORD": order, "VC_R": 2},
                     remove_bodies=["MatrixPreprocess"], stubs=["stubs/c10_stubs.c"], unwind=order + 4, functions=["TensorPreprocess"],
                     bound="%d block(s) of different widths; option symbolic; MatrixPreprocess by recording contract" % order,
                     clause="tensor preprocessing = matrix preprocessing block by block (operands, option, fresh statistics, list entries)"))
    for r in ((2, 3) if tier == "quick" else (1, 2, 3, 4)):
        J.append(Job("minmax@r=%d" % r, "C10/prep.c", entry="h_minmax", srcs=S, kind="bounded", defines={"VC_R": r, "VC_REAL_STATS": None}, unwind=r + 3,
                     functions=["MatrixColumnMinMax"], bound="%d rows, the missing code in any one row or none; values symbolic" % r,
                     clause="column min/max ignore missing-coded cells wherever they are; bound and attain the other cells"))
    return J
