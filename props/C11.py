from run import Job

MANIFEST = dict(
    category="other",
    text="Products (matrix-matrix incl. the 4-way unrolled path and its dispatch, matrix-vector, vector-matrix, dot, outer) are compared cell "
         "by cell with the textbook sum in ring mode "
         "(double := Z/256, exact arithmetic) for every inner dimension 0..8 (all residues mod 4 twice) and small outer dimensions; transpose, "
         "involution (also on shapes above tile thresholds, 13x14..17x13), trace and sorting (permutation of rows + ordered key) in exact IEEE mode; column/row averages, sample variance, "
         "standard deviation, rms, norm against their definitions and covariance symmetry/diagonal on exact IEEE instances (integer cells 0..3, counts 1/2/4: which cells, counts, denominators, independent of the evaluation order). Bounded shapes, all values symbolic.",
    note="Ring mode drops rounding and the NaN/Inf/MISSING filter branches; identity over Z/256 implies identity over the reals for these degree-2 "
         "polynomials with small coefficients (DESIGN 3.4, stated lemma). Rounding, the missing-value branches of the statistics, covariance positive semi-definiteness and off-diagonal values are not decided.",
    technique="CBMC on the real kernels compiled in ring mode (Z/256) and IEEE mode; postconditions as harness assertions over all cells; bounded shapes")

META = dict(decided="products == textbook sums for all residues of the inner dimension; transpose/involution; trace; sort = ordered permutation; column/row statistics structure (cells, counts, denominators)",
            not_decided="(AB)^T=B^T A^T and A(B+C)=AB+AC as machine-checked statements (they follow on paper from the product postconditions), covariance PSD / off-diagonal values, missing-value branches of the statistics, rounding-level agreement",
            trusted_base=["ring-mode polynomial identity lemma (DESIGN 3.4)"], assumptions=[])

S = ["matrix.c", "vector.c", "memwrapper.c", "numeric.c", "tensor.c"]

def R(name, entry, d, clause, mode="ring", fns=(), tier="quick", cells=None, **kw):
    if cells:
        return [R(name, entry, dict(d, VC_GI=gi, VC_GJ=gj), clause + " [ghost cell (%d,%d)]" % (gi, gj), mode, fns, tier, **kw)[0] for (gi, gj) in cells]
    tag = ",".join("%s=%s" % (k[3:], v) for k, v in d.items())
    return [Job("%s@%s" % (name, tag), "C11/kernels.c", entry=entry, srcs=S, mode=mode, kind="bounded", defines=d, tier=tier, **dict(dict(timeout=900 if tier == "quick" else 1800), **kw),
               unwind=max(v for k, v in d.items() if k not in ('VC_GI', 'VC_GJ')) + 3, functions=list(fns),
               bound="concrete shape %s; values symbolic in %s" % (tag, "the ring Z/256" if mode == "ring" else "IEEE binary64"), clause=clause)]

def jobs(tier):
    J = []
    inner = [0, 1, 2, 3, 4, 5, 6, 7, 8, 9] if tier == "thorough" else [0, 1, 3, 4, 5, 6, 7, 8]
    outer = [(1, 1), (2, 2), (1, 2)] if tier == "thorough" else [(1, 2), (2, 1)]
    for n in inner:
        for (m, p) in outer:
            J.extend(R("MatrixDotProduct", "h_MatrixDotProduct", {"VC_M": m, "VC_N": n, "VC_P": p},
                       "matrix product == textbook sum added to the previous output (plain path for inner dim <= 3, unrolled path above)",
                       fns=["MatrixDotProduct", "MatrixDotProduct_", "MatrixDotProduct_LOOP_UNROLLING"],
                       cells=[(i, j) for i in range(m) for j in range(p)],
                       # inner dimension 9 (third visit of residue 1) is attempted only: solver time varies from minutes to beyond the limit
                       **(dict(advisory=True, timeout=900) if n == 9 else {})))
        J.extend(R("MatrixDVectorDotProduct", "h_MatrixDVectorDotProduct", {"VC_M": 2, "VC_N": n}, "M*v == textbook sum added to previous output", fns=["MatrixDVectorDotProduct"], cells=[(0, -1), (1, -1)]))
        J.extend(R("DVectorMatrixDotProduct", "h_DVectorMatrixDotProduct", {"VC_M": n, "VC_N": 2}, "v'*M == textbook sum added to previous output", fns=["DVectorMatrixDotProduct"], cells=[(0, -1), (1, -1)]))
    # (AB)^T = B^T A^T and A(B+C) = AB+AC: harness h_product_laws exists, but no back end finished even the 1x1x1 instance (C integer
    # promotion turns the ring products into 32-bit multipliers whose distributivity the solver must re-derive). The laws follow on paper
    # from "every product cell == textbook sum" proved above; they are listed as not machine-checked.
    for (m, n) in [(0, 2), (1, 1), (2, 3), (3, 2), (3, 0)]:
        J.extend(R("vector_products", "h_vector_products", {"VC_M": m, "VC_N": n}, "dot product, outer products == definitions (operands of different lengths)",
                   fns=["DVectorDVectorDotProd", "RowColOuterProduct", "DVectorTrasposedDVectorDotProduct"],
                   cells=[(i, j) for i in range(max(m, 1)) for j in range(max(n, 1))][:4]))
    for (m, n, p) in [(3, 2, 3), (2, 3, 2), (3, 2, 2), (2, 3, 3), (1, 1, 2)]:
        J.extend(R("outer_into_existing", "h_outer_into_existing", {"VC_M": m, "VC_N": n, "VC_P": p}, "outer product into an existing matrix of another shape: resized, in bounds",
                   mode="ieee", fns=["DVectorTrasposedDVectorDotProduct"]))
    for (m, n) in [(2, 3), (3, 1), (0, 2), (1, 4)]:
        J.extend(R("trace_transpose", "h_trace_transpose", {"VC_M": m, "VC_N": n}, "transpose, involution (data movement, IEEE); trace", mode="ieee" if n <= 1 else "ring",
                   fns=["MatrixTranspose", "MatrixTrace"]))
    for (m, n) in ([(13, 14), (17, 13)] if tier == "quick" else [(13, 14), (17, 13), (15, 15), (14, 17), (9, 18)]):
        J.extend(R("transpose_large", "h_transpose_large", {"VC_M": m, "VC_N": n}, "transpose == definition and involution on shapes above small-tile thresholds, dimensions not multiples of 4 (data movement, IEEE)",
                   mode="ieee", fns=["MatrixTranspose"]))
    for (m, n) in ([(2, 2), (1, 3)] if tier == "quick" else [(2, 2), (1, 3), (3, 1), (2, 3)]):
        J.extend(R("tensor_contractions", "h_tensor_contractions", {"VC_M": m, "VC_N": n}, "tensor-vector / vector-tensor / tensor-matrix contractions == their index definitions, added to the previous output",
                   fns=["TransposedTensorDVectorProduct", "DvectorTensorDotProduct", "TensorMatrixDotProduct"], cells=[(k, i) for k in range(2) for i in range(max(m, n))]))
    for (m, n) in [(2, 2), (2, 1)]:   # two rows (a single row has no sample variance / covariance); row/column counts 1 and 2 only: then even a running-mean evaluation (divisions by 1, 2) stays exact
        J.append(Job("col_statistics@M=%d,N=%d" % (m, n), "C11/kernels.c", entry="h_col_statistics", srcs=S, mode="ieee", kind="bounded",
                     defines={"VC_M": m, "VC_N": n, "VC_STATS": None}, unwind=max(m, n) + 3, timeout=900, stubs=["stubs/usqrt_stub.c"],
                     functions=["MatrixColAverage", "MatrixRowAverage", "MatrixColVar", "MatrixColSDEV", "MatrixColRMS", "MatrixCovariance", "Matrixnorm"],
                     bound="concrete shape %dx%d; cells symbolic in {0,1,2,3} (IEEE, exact instances)" % (m, n),
                     clause="column/row averages, sample variance, standard deviation, rms, norm == definitions; covariance symmetric with the variances on its diagonal "
                            "(which cells, counts, denominators n and n-1; sqrt uninterpreted; exact instances, so independent of the evaluation order; rounding on general data not decided)"))
    for (n, miss) in ([(1, 0), (2, 2)] if tier == "quick" else [(1, 0), (2, 2), (1, 1), (2, 0)]):
        J.append(Job("col_statistics_missing@N=%d,row=%d" % (n, miss), "C11/kernels.c", entry="h_col_statistics_missing", srcs=S, mode="ieee", kind="bounded",
                     defines={"VC_M": 3, "VC_N": n, "VC_MISSROW": miss, "VC_STATS": None}, unwind=6, timeout=900, stubs=["stubs/usqrt_stub.c"],
                     functions=["MatrixColAverage", "MatrixColVar", "MatrixColSDEV", "MatrixColRMS"],
                     bound="3 rows x %d columns, row %d missing-coded; other cells symbolic in {0,1,2,3} (IEEE, exact instances)" % (n, miss),
                     clause="column average / variance / standard deviation / rms ignore missing-coded cells: they equal the statistic of the remaining rows (count and count-1 denominators)"))
    for m in ([1, 2, 3, 4] if tier == "quick" else [1, 2, 3, 4, 5, 6]):   # 17 rows (tried, for a seeded size-dependent sort) did not finish in 300 s
        J.extend(R("sort", "h_sort", {"VC_M": m}, "MatrixSort / MatrixReverseSort: output rows are a permutation of the input rows ordered by the key column", mode="ieee",
                   fns=["MatrixSort", "MatrixReverseSort"]))
    return J
