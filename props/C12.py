from run import Job

MANIFEST = dict(
    category="other",
    text="Interface contracts of the LAPACK wrappers decided on their real bodies with LAPACK replaced by its documented extents (argument checks, "
         "writes of arbitrary values to exactly the documented output extents): every access to the packed column-major arrays is in bounds and "
         "the returned factors have shapes that multiply back to the input shape, for square and rectangular inputs in both orientations "
         "(SVD), and for square inputs (LU inverse, eigen-decomposition). The library's own solvers are decided on exact instances (every intermediate exactly representable, so the defining "
         "equation must hold exactly for any correct algorithm): the Gauss-Jordan inverse satisfies M*M^-1 = I on scaled permutation matrices (zero leading entries / minors: row exchanges required) "
         "and is finite on 2x2 matrices with a zero leading entry; SolveLSE satisfies A*x = b on 0/1 coefficient matrices of determinant +-1 (2x2, 3x3); OrdinaryLeastSquares returns the "
         "least-squares coefficients on designs whose columns are scaled unit vectors (square with zero leading entries, and tall).",
    note="Bounded shapes (<= 4). On general (not exactly representable) data M*M^-1 = I, the solvers' equations, Penrose conditions, A v = lambda v, U S V' = A and the determinant "
         "identities are numerical and not decided; MatrixDeterminant is not under contract (no instance class is exact for every correct algorithm, e.g. an LU-based one).",
    technique="CBMC on the real LAPACK wrapper bodies with documented-extent stubs for dgesdd/dgetrf/dgetri/dgeev; the library's own solvers on exact IEEE instances; bounded shapes")

META = dict(decided="Gauss-Jordan inverse / SolveLSE / OrdinaryLeastSquares satisfy their defining equations on exact instances incl. zero leading entries and minors; in-bounds packed-array access and factor shapes of SVDlapack (square + rectangular), MatrixLUInversion, EVectEval; LAPACK argument preconditions",
            not_decided="defining equations on general data (numerical); LAPACK-backed factorisations' values; determinant",
            trusted_base=["documented-extent LAPACK stubs in harness/C12/lapack.c"], assumptions=[])

S = ["matrix.c", "vector.c", "memwrapper.c", "numeric.c"]

def jobs(tier):
    J = []
    shapes = [(2, 2), (3, 2), (2, 3), (1, 3), (3, 1)] if tier == "quick" else [(1, 1), (2, 2), (3, 3), (3, 2), (2, 3), (1, 3), (3, 1), (4, 2), (2, 4)]
    for (m, n) in shapes:
        J.append(Job("SVDlapack@m=%d,n=%d" % (m, n), "C12/lapack.c", entry="h_SVDlapack", srcs=S, kind="bounded", defines={"VC_M": m, "VC_N": n}, unwind=max(m, n) * max(m, n) * 8 + 4,
                     functions=["SVDlapack", "conv2matrix"], bound="%dx%d input, values symbolic; LAPACK by documented extents" % (m, n), native_libs=[],
                     clause="SVD wrapper: packed arrays accessed in bounds, factor shapes multiply back (square and rectangular)"))
    for m in ((1, 2, 3) if tier == "quick" else (1, 2, 3, 4)):
        J.append(Job("MatrixLUInversion@n=%d" % m, "C12/lapack.c", entry="h_MatrixLUInversion", srcs=S, kind="bounded", defines={"VC_M": m}, unwind=m * m + 4,
                     functions=["MatrixLUInversion"], bound="%dx%d input" % (m, m), clause="LU inverse wrapper: packed array in bounds, LAPACK preconditions, result shape"))
        J.append(Job("EVectEval@n=%d" % m, "C12/lapack.c", entry="h_EVectEval", srcs=S, kind="bounded", defines={"VC_M": m}, unwind=m * m + 4,
                     functions=["EVectEval"], bound="%dx%d input" % (m, m), clause="eigen wrapper: packed arrays in bounds, LAPACK preconditions, result shapes"))
    J.append(Job("MatrixInversion_pivot", "C12/lapack.c", entry="h_MatrixInversion_pivot", srcs=S, kind="bounded", defines={}, unwind=8, functions=["MatrixInversion"], timeout=900,
                 bound="2x2 matrices [[0,b],[c,d]], b,c in [1,2], d in [-1,1] (symbolic)",
                 clause="Gauss-Jordan inverse of a non-singular matrix with a zero leading entry is finite (row exchange needed)"))
    for (dim, perms) in ([(2, (0, 1)), (3, (1, 3, 5))] if tier == "quick" else [(2, (0, 1)), (3, (0, 1, 2, 3, 4, 5))]):
        for pi in perms:
            J.append(Job("MatrixInversion_permutation@dim=%d,perm=%d" % (dim, pi), "C12/lapack.c", entry="h_MatrixInversion_permutation", srcs=S, kind="bounded",
                         defines={"VC_DIM": dim, "VC_PERMIDX": pi}, unwind=2 * dim + 4, functions=["MatrixInversion"], timeout=900,
                         bound="%dx%d scaled permutation matrix (pattern %d), entries +-1/2, +-1, +-2, +-4 symbolic (IEEE, exact instances)" % (dim, dim, pi),
                         clause="Gauss-Jordan inverse: M * M^-1 == I exactly on scaled permutation matrices, including patterns with zero leading entries / zero leading minors"))
    SA = S + ["algebra.c"]
    for dim in (2, 3):
        J.append(Job("SolveLSE@dim=%d" % dim, "C12/solvers.c", entry="h_SolveLSE", srcs=SA, kind="bounded", defines={"VC_DIM": dim}, unwind=dim + 4, functions=["SolveLSE"], timeout=900,
                     bound="%dx%d coefficient matrices with entries 0/1 and determinant +-1, integer right-hand sides 0..3 (IEEE, exact instances)" % (dim, dim),
                     clause="SolveLSE returns the solution of the stated system (A*x == b exactly), including zero leading entries and zero leading minors"))
    for (rows, cols, rowmap) in ([(2, 2, "{1,0}"), (3, 2, "{2,0}")] if tier == "quick" else [(2, 2, "{1,0}"), (3, 2, "{2,0}"), (3, 3, "{1,2,0}"), (4, 2, "{3,1}")]):
        J.append(Job("OLS_exact@%dx%d,%s" % (rows, cols, rowmap.replace(",", "")), "C12/solvers.c", entry="h_OLS_exact", srcs=SA, kind="bounded",
                     defines={"VC_ROWS": rows, "VC_COLS": cols, "VC_ROWMAP": rowmap}, unwind=max(rows, 2 * cols) + 4, functions=["OrdinaryLeastSquares", "MatrixInversion"], timeout=900,
                     bound="%dx%d design matrix, columns = scaled unit vectors on rows %s, scales +-1/2, +-1, +-2, responses 0..3 (IEEE, exact instances)" % (rows, cols, rowmap),
                     clause="OrdinaryLeastSquares returns the least-squares solution (square designs with zero leading entries and tall designs)"))
    return J
