from run import Job

MANIFEST = dict(
    category="other",
    text="Interface contracts of the LAPACK wrappers decided on their real bodies with LAPACK replaced by its documented extents (argument checks, "
         "writes of arbitrary values to exactly the documented output extents): every access to the packed column-major arrays is in bounds and "
         "the returned factors have shapes that multiply back to the input shape, for square and rectangular inputs in both orientations "
         "(SVD), and for square inputs (LU inverse, eigen-decomposition).",
    note="Bounded shapes (<= 4). M*M^-1 = I, Penrose conditions, A v = lambda v, U S V' = A, determinant identities and pivoting behaviour are numerical "
         "and not decided; MatrixInversion (Gauss-Jordan), MatrixDeterminant, SolveLSE and OrdinaryLeastSquares are not under contract.",
    technique="CBMC on the real LAPACK wrapper bodies with documented-extent stubs for dgesdd/dgetrf/dgetri/dgeev; bounded shapes")

META = dict(decided="in-bounds packed-array access and factor shapes of SVDlapack (square + rectangular), MatrixLUInversion, EVectEval; LAPACK argument preconditions",
            not_decided="all defining equations (numerical); Gauss-Jordan inverse, determinant, linear solvers",
            trusted_base=["documented-extent LAPACK stubs in harness/C12/lapack.c"], assumptions=[])

S = ["matrix.c", "vector.c", "memwrapper.c", "numeric.c"]

def jobs(tier):
    J = []
    shapes = [(2, 2), (3, 2), (2, 3), (1, 3), (3, 1)] if tier == "quick" else [(1, 1), (2, 2), (3, 3), (3, 2), (2, 3), (1, 3), (3, 1), (4, 2), (2, 4)]
    for (m, n) in shapes:
        J.append(Job("SVDlapack@m=%d,n=%d" % (m, n), "C12/lapack.c", entry="h_SVDlapack", srcs=S, kind="bounded", defines={"VC_M": m, "VC_N": n}, unwind=max(m, n) * max(m, n) * 8 + 4,
                     functions=["SVDlapack", "conv2matrix"], bound="%dx%d input, values symbolic; LAPACK by documented extents" % (m, n), native_libs=[],
                     clause="SVD wrapper: packed arrays accessed in bounds, factor shapes multiply back (square and rectangular)"))
    for m in ((1, 2, 3) if tier == "quick" else (1, 2, 3, 4)):
        J.append(Job("MatrixLUInversion@n=%d" % m, "C12/lapack.c", entry="h_MatrixLUInversion", srcs=S, kind="bounded", defines={"VC_M": m}, unwind=m * m + 4,
                     functions=["MatrixLUInversion"], bound="%dx%d input" % (m, m), clause="LU inverse wrapper: packed array in bounds, LAPACK preconditions, result shape"))
        J.append(Job("EVectEval@n=%d" % m, "C12/lapack.c", entry="h_EVectEval", srcs=S, kind="bounded", defines={"VC_M": m}, unwind=m * m + 4,
                     functions=["EVectEval"], bound="%dx%d input" % (m, m), clause="eigen wrapper: packed arrays in bounds, LAPACK preconditions, result shapes"))
    J.append(Job("MatrixInversion_pivot", "C12/lapack.c", entry="h_MatrixInversion_pivot", srcs=S, kind="bounded", defines={}, unwind=8, functions=["MatrixInversion"], timeout=900,
                 bound="2x2 matrices [[0,b],[c,d]], b,c in [1,2], d in [-1,1] (symbolic)",
                 clause="Gauss-Jordan inverse of a non-singular matrix with a zero leading entry is finite (row exchange needed)"))
    return J
