from run import Job

MANIFEST = dict(
    category="other",
    text="Slicing partition proved on the real slicing loops (including the floating-point ceil step) for every row count <= 2^20 and every "
         "thread count up to the stated bound: slices are consecutive, ordered, inside the data and end at the last row, hence each row goes "
         "to exactly one worker; workers are intercepted by a pthread monitor. Worker frames / MT==ST on bounded shapes; condensed index map "
         "bijection facts for n <= 64.",
    note="pthread_create/join replaced by a monitor (assumed contract: a worker runs once between create and join). Thread count bounded "
         "(8 quick / 24 thorough; 12 for the two matrix-vector drivers) by unwinding, plus one instance at 17 (33 thorough) per distance/labelling driver; rows symbolic <= 2^20. The slicing loops of KMeansppCenters and MDC are embedded in data-dependent outer loops and are checked for concrete small row/thread counts only; "
         "MDC's (same pattern, 1 of the 10 sites) is not covered. Numerical distance axioms (triangle inequality etc.) not decided.",
    technique="CBMC on the real slicing loops with a pthread monitor contract; rows symbolic, thread count by unwinding with unwinding assertions")

META = dict(decided="row partition among workers for MT matrix-vector kernels, distance kernels, k-means labelling; worker write frames; index map facts",
            not_decided="triangle inequality / non-negativity numerics; MDC and k-means++ slicing beyond the enumerated row/thread counts; real interleavings",
            trusted_base=["pthread monitor contract (harness/C13/mon.h)"], assumptions=["rows <= 2^20, thread count <= bound stated per job"])

def jobs(tier):
    T = 8 if tier == "quick" else 24
    J = []
    TM = 8 if tier == "quick" else 12   # the two matrix-vector drivers did not finish at 24 within 3000 s
    for fn in ("MT_MatrixDVectorDotProduct", "MT_DVectorMatrixDotProduct"):
        J.append(Job("slice_" + fn, "C13/slicing_matrix.c", srcs=["vector.c", "memwrapper.c", "numeric.c"], kind="bounded",
                     defines={"VC_T": TM}, unwind=TM + 2, functions=[fn], timeout=900 if tier == "quick" else 3000,
                     bound="rows/cols symbolic <= 2^20; thread count symbolic 2..%d (unwinding %d with unwinding assertions)" % (TM, TM + 2),
                     clause="every row is handed to exactly one worker: slices consecutive, ordered, in range, ending at rows"))
    for fn in ("CalculateDistance", "EuclideanDistanceCondensed", "SquaredEuclideanDistanceCondensed", "ManhattanDistanceCondensed", "CosineDistanceCondensed"):
        J.append(Job("slice_" + fn, "C13/slicing_metricspace.c", srcs=["vector.c", "memwrapper.c", "numeric.c", "matrix.c"], kind="bounded",
                     defines={"VC_T": T}, unwind=T + 2, functions=[fn], timeout=900 if tier == "quick" else 3000,
                     bound="rows symbolic <= 2^20; requested thread count symbolic 2..%d (unwinding %d with unwinding assertions)" % (T, T + 2),
                     clause="every row is handed to exactly one worker, for counts above / not dividing the row count and for one"))
    J.append(Job("slice_getLabels_", "C13/slicing_clustering.c", srcs=["vector.c", "memwrapper.c", "numeric.c", "matrix.c", "metricspace.c", "tensor.c", "list.c", "statistic.c", "pca.c", "preprocessing.c", "algebra.c", "graphs.c"], kind="bounded",
                 defines={"VC_T": T}, unwind=T + 2, functions=["getLabels_"], timeout=900 if tier == "quick" else 3000,
                 bound="rows symbolic <= 2^20; thread count symbolic 2..%d" % T,
                 clause="k-means labelling: every object is labelled by exactly one worker"))
    # one concrete larger thread count per solver call (cheap: the loop unrolls to a fixed depth); rows stay symbolic
    SL = dict(J_matrix=("C13/slicing_matrix.c", ["vector.c", "memwrapper.c", "numeric.c"]),
              J_metric=("C13/slicing_metricspace.c", ["vector.c", "memwrapper.c", "numeric.c", "matrix.c"]),
              J_clust=("C13/slicing_clustering.c", ["vector.c", "memwrapper.c", "numeric.c", "matrix.c", "metricspace.c", "tensor.c", "list.c", "statistic.c", "pca.c", "preprocessing.c", "algebra.c", "graphs.c"]))
    big = [17] if tier == "quick" else [17, 33]
    # (the two MT_ matrix-vector drivers take the detected processor count; their instances at 17 did not finish in 900 s)
    for fn, grp in [("CalculateDistance", "J_metric"),
                    ("EuclideanDistanceCondensed", "J_metric"), ("SquaredEuclideanDistanceCondensed", "J_metric"), ("ManhattanDistanceCondensed", "J_metric"),
                    ("CosineDistanceCondensed", "J_metric"), ("getLabels_", "J_clust")]:
        for t in big:
            J.append(Job("slice_%s@nth=%d" % (fn, t), SL[grp][0], entry="h_slice_" + fn, srcs=SL[grp][1], kind="bounded",
                         defines={"VC_T": t, "VC_T_LO": t}, unwind=t + 2, functions=[fn], timeout=900 if tier == "quick" else 3000,
                         bound="rows symbolic <= 2^20; thread count %d" % t,
                         clause="every row is handed to exactly one worker at a thread count above the symbolic range"))
    shapes = [(3, 2, 2), (1, 3, 2), (4, 1, 1), (2, 2, 3)] if tier == "quick" else [(3, 2, 2), (1, 3, 2), (4, 1, 1), (2, 2, 3), (5, 2, 2), (0, 2, 2), (3, 1, 0), (4, 3, 1)]
    for (r1, r2, c) in shapes:
        for kind, entry, unit, n, fns, clause in [
            ("CalcWorker_eq_ST", "h_CalcWorker_eq_ST", None, r1, ["CalcWorker", "SquaredEuclideanDistance_ST"], "distance workers over every consecutive split == ST matrix; a worker writes only its slice"),
            ("CalcCondensedWorker_eq_square", "h_CalcCondensedWorker_eq_square", None, r1, ["CalcCondensedWorker", "square_to_condensed_index"], "condensed vector == strict upper triangle of the square form under the index map; symmetry; zero self-distance"),
            ("MatrixDVectorWorker_eq_ST", "h_MatrixDVectorWorker_eq_ST", "M", r1, ["MatrixDVectorDotProductWorker", "MatrixDVectorDotProduct"], "M*v workers over every consecutive split == ST product into a zeroed output"),
            ("DVectorMatrixWorker_eq_ST", "h_DVectorMatrixWorker_eq_ST", "M", c, ["DVectorMatrixDotProductWorker", "DVectorMatrixDotProduct"], "v'*M workers over every consecutive split == ST product into a zeroed output")]:
            for a_ in range(0, n + 1):
                for b_ in range(a_, n + 1):
                    if tier == "quick" and (a_, b_) not in ((0, 0), (0, n), (n, n), (1, min(2, n)), (n // 2, n), (1, 1)):
                        continue
                    if a_ > n or b_ > n:
                        continue
                    d = {"VC_R1": r1, "VC_R2": r2, "VC_C": c, "VC_A": a_, "VC_B": b_}
                    if unit:
                        d["VC_UNIT_MATRIX"] = None
                    tag = "r1=%d,r2=%d,c=%d,a=%d,b=%d" % (r1, r2, c, a_, b_)
                    J.append(Job(kind + "@" + tag, "C13/workers_eq_st.c", entry=entry,
                                 srcs=(["vector.c", "memwrapper.c", "numeric.c"] if unit else ["matrix.c", "vector.c", "memwrapper.c", "numeric.c"]),
                                 mode="ring", kind="bounded", defines=d, unwind=max(r1, r2, c, r1 * (r1 - 1) // 2 if r1 else 0, 3) + 2, functions=fns,
                                 bound="concrete shape and split %s; cell values symbolic in the ring Z/256 (squared-Euclidean / product kernels)" % tag,
                                 clause=clause))
    for (r1, r2, c) in ([(3, 2, 1), (2, 3, 1)] if tier == "quick" else [(3, 2, 1), (2, 3, 1), (4, 1, 1), (1, 4, 1), (3, 3, 1)]):   # two-column shapes (IEEE sums of two terms) did not finish in 1800 s
        for nth in (1, 2, 4):
            for method in (2,):   # Manhattan: IEEE equality of the squared-Euclidean multiplications is beyond the solver (ring-mode worker jobs cover that kernel)
                d = {"VC_R1": r1, "VC_R2": r2, "VC_C": c, "VC_NTH": nth, "VC_METHOD": method}
                tag = "r1=%d,r2=%d,c=%d,nth=%d,%s" % (r1, r2, c, nth, "sqeuclid" if method == 1 else "manhattan")
                J.append(Job("CalculateDistance_eq_ST@" + tag, "C13/driver_eq_st.c", entry="h_CalculateDistance_eq_ST", srcs=["matrix.c", "vector.c", "memwrapper.c", "numeric.c"],
                             kind="bounded", defines=d, unwind=max(r1, r2, c, nth) + 2, functions=["CalculateDistance"],
                             bound="concrete shape/thread count %s; IEEE cell values symbolic" % tag,
                             clause="driver with this thread count (incl. one and more than rows) == single-threaded definition, rectangular operands"))
                J.append(Job("Condensed_eq_square@" + tag, "C13/driver_eq_st.c", entry="h_Condensed_eq_square", srcs=["matrix.c", "vector.c", "memwrapper.c", "numeric.c"],
                             kind="bounded", defines=d, unwind=max(r1, c, nth, r1 * (r1 - 1) // 2) + 2, functions=["SquaredEuclideanDistanceCondensed", "ManhattanDistanceCondensed"],
                             bound="concrete shape/thread count %s; IEEE cell values symbolic" % tag,
                             clause="condensed driver with this thread count == upper triangle of the ST square form"))
    for rows in ((2, 3, 5) if tier == "quick" else (2, 3, 4, 5, 6, 7)):
        for nth in ((1, 2, 3, 4) if tier == "quick" else (1, 2, 3, 4, 5, 6, 8)):
            J.append(Job("slice_KMeansppCenters@rows=%d,nth=%d" % (rows, nth), "C13/slicing_kmpp.c", entry="h_slice_KMeansppCenters",
                         srcs=["vector.c", "memwrapper.c", "numeric.c", "matrix.c", "metricspace.c"], kind="bounded", defines={"VC_ROWS": rows, "VC_NTH": nth},
                         unwind=max(rows, nth) + 4, functions=["KMeansppCenters"], object_bits=10,
                         bound="concrete rows=%d, threads=%d (outer seeding loop is data dependent); one seeding round" % (rows, nth),
                         clause="k-means++ distance pass: every row is handed to exactly one worker (counts above / not dividing the row count, and one)"))
    for rows in ((2, 3, 5) if tier == "quick" else (2, 3, 4, 5, 6, 7)):
        for nth in ((1, 2, 3, 4) if tier == "quick" else (1, 2, 3, 4, 5, 6, 8)):
            J.append(Job("slice_MDC@rows=%d,nth=%d" % (rows, nth), "C13/slicing_mdc.c", entry="h_slice_MDC",
                         srcs=["vector.c", "memwrapper.c", "numeric.c", "matrix.c", "metricspace.c"], kind="bounded", defines={"VC_ROWS": rows, "VC_NTH": nth},
                         unwind=max(rows, nth) + 4, functions=["MDC"], object_bits=10,
                         bound="concrete rows=%d, threads=%d (selection loop is data dependent); two selection rounds" % (rows, nth),
                         clause="MDC distance pass: in every round every row is handed to exactly one worker (counts above / not dividing the row count, and one)"))
    J.append(Job("GetNProcessor", "C13/nproc.c", entry="h_GetNProcessor", srcs=[], kind="proof", defines={}, functions=["GetNProcessor"],
                 bound="all return values of sysconf (assumed contract: an arbitrary long); loop-free",
                 clause="detected thread count is at least one"))
    J.append(Job("index_map", "C13/index_map.c", srcs=["metricspace.c", "matrix.c", "vector.c", "memwrapper.c", "numeric.c"], kind="bounded",
                 defines={"VC_NMAX": 64}, functions=["square_to_condensed_index"], timeout=900,
                 bound="n symbolic <= 64 (64-bit multiply/divide facts did not finish for larger n on any back end); loop-free",
                 clause="condensed index map is a bijection onto [0,n(n-1)/2): range, symmetry, first, successor, last"))
    return J
