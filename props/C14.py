from run import Job

META = dict(
    decided="representation invariant + whole-view postconditions of container operations",
    not_decided="nothing structural; floating point values are only moved, never computed",
    trusted_base=[], assumptions=[])

V = ["vector.c", "memwrapper.c"]
FB = dict(unwind=7, defines={"VC_MAXN": "4"}, bound="sizes <= 4, unwind 7")

def A(name, enforce, loops=0, **kw):
    return Job(name, "C14/dvector.c", srcs=V, enforce=enforce, loop_contracts=loops > 0, min_loops=loops, kind="proof",
               bound="size <= 2^20 (machine range), no unwinding", fallback=FB if loops else None, **kw)

def jobs(tier):
    J = []
    J.append(A("NewDVector", "NewDVector", loops=2, clause="new vector has the requested size, every cell zero, fresh storage"))
    return J
