from run import Job

MANIFEST = dict(
    category="other",
    text="Per-operation contracts (representation invariant + whole-view postcondition + frame/ownership) on the real container "
         "functions, enforced by CBMC/DFCC. dvector/uivector/ivector operations (incl. RemoveAt, with libc memmove by an assumed element-wise contract) are proved for every size "
         "<= 2^20 with function and loop contracts (no unwinding); the matrix/tensor/dvectorlist/strvector operations (nested pointers) are bounded "
         "stand-ins over enumerated shapes and histories with symbolic contents. The sort operations: the two comparators are decided loop-free over their full domain (every pair of size_t values / non-NaN doubles, no overflow), "
         "SortUIVector / DVectorSort / DVectorMedian return the ascending permutation / the middle element(s) for 1..4 elements with qsort by contract. Any operation history is covered by induction over these contracts, which is why the "
         "level is 'other' rather than 'proof': part of the obligations are bounded.",
    note="CBMC models of malloc/realloc/free; allocation failure aborts; libc memmove by assumed contract in the unbounded RemoveAt proofs and by an own byte-loop model in the bounded cross-checks (CBMC's built-in model is wrong for overlapping symbolic "
         "lengths); strdup by contract; stdio stubbed; qsort by assumed contract; ghost-index generalisation; bounded jobs list their shape bound in evidence.",
    technique="CBMC function contracts (DFCC) + loop contracts on the real C sources; bounded unwinding stand-ins for nested-pointer containers")

META = dict(
    decided="representation invariant (well-formedness) preserved and whole-view postconditions (size bookkeeping, old cells preserved, "
            "new cells zero/appended, deep copies, frames, clean abort / no-op on out-of-range accessors) for container operations",
    not_decided="nothing structural; operation histories are covered by induction over the per-operation contracts, not enumerated",
    trusted_base=[], assumptions=[])

V = ["vector.c", "memwrapper.c", "numeric.c"]
FB = dict(unwind=7, defines={"VC_MAXN": "4"}, bound="sizes <= 4, unwind 7")
UNB = "size symbolic <= 2^20 (machine range), loops closed by loop contracts, no unwinding"

def A(name, loops=(), replace=(), **kw):
    return Job(name, "C14/vectors.c", srcs=V, enforce=name, loops=list(loops), min_loops=len(loops), replace=replace, kind="proof",
               bound=UNB, fallback=FB if loops else None, **kw)

def jobs(tier):
    J = []
    for P in ("DVector", "UIVector", "IVector"):
        J.append(A("init" + P, clause="init: empty vector, NULL data"))
        J.append(A("New" + P, loops=["New" + P], clause="New: requested size, all cells zero, fresh storage"))
        J.append(A("Del" + P, clause="Del: frees exactly the struct and its data block"))
        J.append(A(P + "Append", clause="Append: size+1, last cell = value, old cells preserved"))
        elem = {"DVector": "double", "UIVector": "size_t", "IVector": "int"}[P]
        J.append(Job(P + "RemoveAt", "C14/vectors.c", srcs=V, enforce=P + "RemoveAt", replace=["memmove"], kind="proof", defines={"VC_MEMMOVE_ELEM": elem},
                     bound=UNB + "; libc memmove by ASSUMED element-wise contract (contracts/libc.h)", timeout=900,
                     clause="RemoveAt for every size: in range -> size-1, prefix preserved, suffix shifted; out of range -> no change (memmove by assumed contract)"))
        for n in range(0, 4 if tier == "quick" else 9):
            J.append(Job(P + "RemoveAt@n=%d" % n, "C14/vectors.c", entry="h_%sRemoveAt_fix" % P, srcs=V + ["stubs/memmove_stub.c"], enforce=P + "RemoveAt", kind="bounded",
                         defines={"VC_FIXN": str(n)}, unwind=n + 2,
                         unwindset=["memmove.0:%d" % (8 * n + 2), "memmove.1:%d" % (8 * n + 2)],
                         bound="size = %d (one solver call per size; memmove of symbolic length over a symbolic-size block is beyond the solver), index and contents symbolic" % n,
                         clause="RemoveAt: in range -> size-1, prefix preserved, suffix shifted; out of range -> no change"))
        J.append(A(P + "Extend", loops=[P + "Extend"], replace=["New" + P], clause="Extend: fresh vector = concatenation, deep"))
        J.append(A("get" + P + "Value", clause="get: returns the cell; out of range -> clean abort"))
        J.append(A("set" + P + "Value", clause="set: in range -> written, others preserved; out of range -> abort (dvector) / no write"))
        J.append(A(P + "Set", loops=[P + "Set"], clause="Set: every cell = value"))
        J.append(A(P + "HasValue", loops=[P + "HasValue"], clause="HasValue: 1 only if no cell matches",
                   backend="cvc5" if P == "DVector" else "sat"))
    J.append(A("DVectorResize", loops=["DVectorResize"], clause="Resize: new size, all zero"))
    J.append(A("UIVectorResize", loops=["UIVectorResize"], clause="Resize: new size, all zero"))
    J.append(A("DVectorCopy", loops=["DVectorCopy"], clause="Copy: same size, same cells, deep, source unchanged"))
    J.append(A("UIVectorIndexOf", loops=["UIVectorIndexOf"], clause="IndexOf: first occurrence or -1"))
    J.append(A("DVectorMinMax", loops=["DVectorMinMax"], clause="MinMax: bounds every cell; empty -> abort; NULL outputs untouched"))
    J.append(A("DVectNorm", loops=["DVectNorm", "DvectorModule"], clause="DVectNorm: writes only inside nv or aborts"))
    J.append(A("DvectorModule", loops=["DvectorModule"], clause="read-only scan in bounds"))
    J.append(A("DVectorDVectorDotProd", loops=["DVectorDVectorDotProd"], clause="read-only scan in bounds (v2 at least as long as v1)"))
    J.append(A("DVectorMean", loops=["DVectorMean"], clause="frame: only *mean"))
    J.append(A("DVectorSDEV", loops=["DVectorSDEV", "DVectorMean"], clause="frame: only *sdev"))
    J += matrix_jobs(tier)
    TS = ["tensor.c", "matrix.c", "vector.c", "memwrapper.c", "numeric.c"]
    # (source blocks, destination blocks before the copy, destination block shape)
    for (sord, dord, dr, dc) in ([(2, 0, 1, 1), (2, 2, 2, 1), (2, 1, 1, 1), (1, 2, 1, 1), (2, 2, 1, 2)] if tier == "quick" else
                                 [(2, 0, 1, 1), (2, 2, 2, 1), (2, 1, 1, 1), (1, 2, 1, 1), (2, 2, 1, 2), (0, 1, 1, 1), (1, 1, 3, 3), (2, 3, 1, 1)]):
        d = {"VC_SORD": sord, "VC_DORD": dord, "VC_DR": dr, "VC_DC": dc}
        tag = "src=%d,dst=%d,%dx%d" % (sord, dord, dr, dc)
        J.append(Job("TensorCopy@" + tag, "C14/tensor.c", entry="h_TensorCopy", srcs=TS, kind="bounded", defines=d, unwind=6, functions=["TensorCopy", "AddTensorMatrix", "DelTensor"],
                     bound="source blocks 2x1 and 1x2 (first %d), destination with %d block(s) of %dx%d; contents symbolic" % (sord, dord, dr, dc),
                     clause="TensorCopy into an empty or non-empty destination of any shape: deep equal copy, source unchanged, memory safe"))
    for (sord, dc) in [(0, 2), (1, 1), (2, 2)]:
        J.append(Job("TensorAppendMatrix@src=%d,c=%d" % (sord, dc), "C14/tensor.c", entry="h_TensorAppendMatrix", srcs=TS, kind="bounded", defines={"VC_SORD": sord, "VC_DC": dc, "VC_DR": 2},
                     unwind=6, functions=["TensorAppendMatrix"], bound="tensor with %d block(s), appended matrix with %d column(s); contents symbolic" % (sord, dc),
                     clause="TensorAppendMatrix: one more block, deep equal copy, earlier blocks preserved"))
    for sord in (1, 2):
        J.append(Job("tensor_accessors@src=%d" % sord, "C14/tensor.c", entry="h_tensor_accessors", srcs=TS, kind="bounded", defines={"VC_SORD": sord}, unwind=6,
                     functions=["getTensorValue", "setTensorValue", "TensorSet"], bound="%d block(s); indices and contents symbolic" % sord,
                     clause="tensor get/set: in range read/written, out-of-range get returns the NaN sentinel; TensorSet fills every cell"))
    for (n1, n2) in ([(1, 1), (2, 1), (0, 1)] if tier == "quick" else [(1, 1), (2, 1), (0, 1), (2, 2), (1, 0)]):
        J.append(Job("strvector_extend@n1=%d,n2=%d" % (n1, n2), "C14/strvector.c", entry="h_strvector_extend", srcs=["vector.c", "memwrapper.c", "numeric.c"], kind="bounded",
                     defines={"VC_N1": n1, "VC_N2": n2}, unwind=8, functions=["StrVectorExtend", "StrVectorAppend", "DelStrVector"], object_bits=10,
                     bound="string vectors of %d and %d short strings" % (n1, n2), clause="StrVectorExtend: result owns deep copies; deleting every container once frees every block once"))
    for n1 in ((1, 2) if tier == "quick" else (1, 2, 3)):
        J.append(Job("strvector_append@n=%d" % n1, "C14/strvector.c", entry="h_strvector_append", srcs=["vector.c", "memwrapper.c", "numeric.c"], kind="bounded",
                     defines={"VC_N1": n1}, unwind=8, functions=["StrVectorAppend", "initStrVector", "DelStrVector"], object_bits=10,
                     bound="%d appended short strings" % n1, clause="StrVectorAppend: size+1, own copy of the text, earlier entries preserved"))
    for n0 in ((0, 1, 3) if tier == "quick" else (0, 1, 2, 3, 4, 5)):
        for napp in ((1, 3) if tier == "quick" else (1, 2, 3, 4)):
            for ln in ((0, 2) if tier == "quick" else (0, 1, 2, 3)):
                d = {"VC_N0": n0, "VC_NAPP": napp, "VC_LEN": ln}
                tag = "n0=%d,napp=%d,len=%d" % (n0, napp, ln)
                J.append(Job("DVectorList_history@" + tag, "C14/list.c", entry="h_DVectorList_history", srcs=["list.c", "vector.c", "memwrapper.c", "numeric.c"],
                             kind="bounded", defines=d, unwind=n0 + napp + ln + 3, functions=["initDVectorList", "NewDVectorList", "DVectorListAppend", "DelDVectorList"],
                             bound="concrete history %s; contents symbolic" % tag,
                             clause="dvectorlist: append keeps earlier entries, stores deep equal copies, stays inside its slot table; delete frees everything once"))
    # the "sort" operation: comparators over their full domain (loop-free: complete), sort routines with qsort by contract
    SS = ["memwrapper.c", "numeric.c"]
    J.append(Job("intcmp", "C14/sorting.c", entry="h_intcmp", srcs=SS, kind="proof", functions=["intcmp"], cbmc_flags=["--signed-overflow-check"],
                 bound="", clause="comparator of SortUIVector orders the stored size_t values and does not overflow, for every pair of values (loop-free, full domain)"))
    J.append(Job("cmp", "C14/sorting.c", entry="h_cmp", srcs=SS, kind="proof", functions=["cmp"], cbmc_flags=["--signed-overflow-check"],
                 bound="", clause="comparator of DVectorSort/DVectorMedian orders every pair of non-NaN doubles (loop-free, full domain)"))
    for n in ((2, 3) if tier == "quick" else (1, 2, 3, 4)):
        J.append(Job("SortUIVector@n=%d" % n, "C14/sorting.c", entry="h_SortUIVector", srcs=SS, kind="bounded", defines={"VC_N": n}, unwind=n + 3,
                     functions=["SortUIVector", "intcmp"], bound="%d elements, every size_t value" % n, cbmc_flags=["--signed-overflow-check"],
                     clause="SortUIVector: ascending permutation of the stored values (qsort by contract)"))
        J.append(Job("DVectorSort@n=%d" % n, "C14/sorting.c", entry="h_DVectorSort", srcs=SS, kind="bounded", defines={"VC_N": n}, unwind=n + 3,
                     functions=["DVectorSort", "DVectorMedian", "cmp"], bound="%d elements, every non-NaN double" % n,
                     clause="DVectorSort: ascending permutation; DVectorMedian: middle element / mean of the two middle elements (qsort by contract)"))
    return J


M = ["matrix.c", "vector.c", "memwrapper.c", "numeric.c"]

def B(fn, defs, clause, tier="quick"):
    out = [B1(fn, defs, clause, tier)]
    if defs.get("VC_R") == 0 and defs.get("VC_C") == 0 or (defs.get("VC_R2") == 0 and defs.get("VC_C2") == 0):
        out.append(B1(fn, dict(defs, VC_NULLDATA=1), clause + " [0x0 operand in the initMatrix state: NULL row table]", tier))
    return out

def B1(fn, defs, clause, tier="quick"):
    tag = ",".join("%s=%s" % (k[3:], v) for k, v in defs.items())
    mx = max(int(v) for v in defs.values()) if defs else 1
    return Job("%s@%s" % (fn, tag) if tag else fn, "C14/matrix.c", entry="h_" + fn, srcs=M, enforce=fn, kind="bounded",
               defines={k: str(v) for k, v in defs.items()}, unwind=mx + 3, tier=tier,
               bound="concrete shape %s (one solver call per shape), all cell values symbolic, every result cell checked" % (tag or "-"),
               clause=clause)

def matrix_jobs(tier):
    J = []
    N = 2 if tier == "quick" else 3
    R = range(0, N + 1)
    J.extend(B("initMatrix", {}, "initMatrix: empty, NULL data"))
    for r in R:
        for c in R:
            d = {"VC_R": r, "VC_C": c}
            J.extend(B("NewMatrix", d, "NewMatrix: shape, zero cells, well-formed rows"))
            J.extend(B("DelMatrix", d, "DelMatrix frees struct, row table and every row exactly once"))
            J.extend(B("MatrixSet", d, "MatrixSet: every cell = value (square and rectangular paths)"))
            J.extend(B("setMatrixValue", d, "setMatrixValue: in range written (NaN/Inf -> MISSING), others preserved; out of range no write"))
            J.extend(B("getMatrixValue", d, "getMatrixValue: cell or NaN sentinel when out of range"))
            J.extend(B("getMatrixRow", d, "getMatrixRow: fresh vector with the row; NULL out of range"))
            J.extend(B("getMatrixColumn", d, "getMatrixColumn: fresh vector with the column; NULL out of range"))
            if r > 0:
                J.extend(B("MatrixDeleteRowAt", d, "DeleteRowAt: rows above shift up, others preserved"))
            if c > 0:
                J.extend(B("MatrixDeleteColAt", d, "DeleteColAt: columns right shift left, others preserved"))
            for (r2, c2) in sorted(set([(0, 0), (r, c), (r + 1, c), (1, 2), (c, r)])):
                d2 = dict(d, VC_R2=r2, VC_C2=c2)
                J.extend(B("ResizeMatrix", d2, "ResizeMatrix: new shape, all zero, old rows released"))
                J.extend(B("MatrixCopy", d2, "MatrixCopy: destination of any prior shape becomes a deep, equal copy; source unchanged"))
            for sz in range(0, N + 2):
                d3 = dict(d, VC_S=sz)
                for f in ("MatrixAppendRow", "MatrixAppendUIRow"):
                    J.extend(B(f, d3, "AppendRow (operand shorter/equal/longer/empty): shape, old cells preserved, exposed cells zero, new row = operand padded"))
                for f in ("MatrixAppendCol", "MatrixAppendUICol"):
                    J.extend(B(f, d3, "AppendCol (operand shorter/equal/longer/empty): shape, old cells preserved, exposed cells zero, new column = operand padded"))
    return J
