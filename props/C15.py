from run import Job

MANIFEST = dict(
    category="other",
    text="Decided on the real bodies for bounded sizes: the ROC curve of every label pattern and every score order (scores symbolic, no ties) "
         "starts at (0,0), has one point per object in descending score order with coordinates count/total, is monotone and ends at (1,1), the precision-recall curve starts at (0,1), has non-decreasing recall ending at 1 with each point = (tp/positives, tp/(tp+fp)); "
         "with the real trapezoid routine and class sizes 1 or 2 (exact instances) the ROC area equals the Mann-Whitney probability exactly for every score order, so it depends on the order only "
         "(invariance under strictly increasing maps and under reordering; 1 - AUC under negation = the reversed order) and the precision-recall area lies in [0,1]; "
         "R2, MSE, RMSE, MAE and BIAS equal their formulas on exact instances (integer truths/predictions 0..3, 2 elements, total sum of squares a power of two: every intermediate is exactly representable, so the "
         "obligation is independent of the evaluation order; sqrt uninterpreted), with errors 0 and R2 = 1 for perfect prediction, and a missing-coded truth in any position is ignored (3 elements, one missing-coded: each figure equals its formula over the other two); "
         "the general-data form of the 'missing-coded truths are ignored' obligation for R2/MSE/MAE/BIAS (value equals the function on the vectors without that element) is only attempted in the thorough tier: no back end finished it within 15 minutes; the PLS "
         "statistic tables are R2/RMSE/BIAS applied per response and latent variable to the right columns with missing-coded rows removed.",
    note="Bounded: 2..3 objects for ROC (all patterns/orders enumerated), 3 elements for the missing-value obligation, 2..3 rows for the tables. "
         "Beyond 3 objects / class sizes 1-2 the AUC identity is not decided (thirds are not exactly representable); MAE <= RMSE, R2 <= 1 on general data are "
         "numerical statements and not decided; in the ROC@ jobs the area routine is an oracle, in the AUC@ jobs it is the real routine.",
    technique="CBMC on the real ROC / R2 / MSE / MAE / BIAS / PLSRegressionStatistics bodies; enumerated label patterns and orders; oracle statistics for table wiring")

META = dict(decided="AUC == Mann-Whitney probability for every score order (class sizes 1-2); R2/MSE/RMSE/MAE/BIAS == formulas on exact instances; ROC point sequence, endpoints and monotonicity; PLS statistic table wiring incl. removal of missing-coded rows",
            not_decided="missing-coded truths ignored on general (not exactly representable) data (attempted, solver timeout); AUC identity beyond 3 objects, MAE <= RMSE and R2 <= 1 on general data",
            trusted_base=["oracle area / statistics in harness/C15/stats.c"], assumptions=["scores without ties"])

S = ["matrix.c", "vector.c", "memwrapper.c", "numeric.c", "interpolate.c"]

def jobs(tier):
    J = []
    for n in (2, 3):
        nperm = 2 if n == 2 else 6
        for labels in range(1, (1 << n) - 1):           # at least one positive and one negative
            for perm in range(nperm):
                if tier == "quick" and n == 3 and (labels + perm) % 2:
                    continue
                d = {"VC_UNIT_ROC": None, "VC_N": n, "VC_LABELS": labels, "VC_PERM": perm}
                J.append(Job("ROC@n=%d,labels=%d,perm=%d" % (n, labels, perm), "C15/stats.c", entry="h_ROC", srcs=S, kind="bounded", defines=d, unwind=n + 4,
                             functions=["ROC", "PrecisionRecall", "MatrixReverseSort"], bound="%d objects, label pattern %d, score order %d; score values symbolic" % (n, labels, perm),
                             clause="ROC point sequence: origin, one point per object by descending score, count/total coordinates, monotone, ends at (1,1)"))
    for n in (2, 3):
        nperm = 2 if n == 2 else 6
        for labels in range(1, (1 << n) - 1):
            for perm in range(nperm):
                if tier == "quick" and n == 3 and (labels + perm) % 3:
                    continue
                d = {"VC_UNIT_ROC": None, "VC_REAL_AREA": None, "VC_N": n, "VC_LABELS": labels, "VC_PERM": perm}
                J.append(Job("AUC@n=%d,labels=%d,perm=%d" % (n, labels, perm), "C15/stats.c", entry="h_ROC", srcs=S, kind="bounded", defines=d, unwind=n + 4,
                             functions=["ROC", "PrecisionRecall", "curve_area"], bound="%d objects (class sizes 1 or 2: exact instances), label pattern %d, score order %d; score values symbolic" % (n, labels, perm),
                             clause="AUC (real trapezoid routine) == Mann-Whitney probability exactly for this score order; hence invariant under strictly increasing maps / reordering, 1 - AUC under negation; PR area in [0,1]"))
    for k in (0, 1, 2):
        for which, nm in ((0, "MAE"), (1, "MSE"), (2, "R2"), (3, "BIAS")):
            if tier == "quick":
                continue      # the IEEE equality of two evaluations did not finish (MAE 300 s, others 900 s): attempted in the thorough tier only
            J.append(Job("missing_ignored@%s,k=%d" % (nm, k), "C15/stats.c", entry="h_missing_ignored", srcs=S + ["statistic.c"], kind="bounded",
                         defines={"VC_UNIT_MISSING": None, "VC_N": 3, "VC_K": k, "VC_WHICH": which}, unwind=6, functions=[nm], timeout=1200, tier="thorough", advisory=True, bound="3 elements, missing code at position %d; values symbolic in (-1e3,1e3)" % k,
                         clause="%s ignores a missing-coded truth (equal to the value on the vectors without it)" % nm))
    for n in (2,):   # 2 elements: every division is by 1 or 2, so even a running-mean evaluation stays exact
        J.append(Job("regression_formulas@n=%d" % n, "C15/stats.c", entry="h_regression_formulas", srcs=S + ["statistic.c"], mode="ieee", kind="bounded",
                     defines={"VC_UNIT_FORMULAS": None, "VC_N": n}, unwind=n + 4, functions=["R2", "MSE", "RMSE", "MAE", "BIAS"], stubs=["stubs/usqrt_stub.c"], timeout=900,
                     bound="%d elements; cells symbolic in {0,1,2,3}, total sum of squares a power of two (IEEE, exact instances)" % n,
                     clause="R2, MSE, RMSE, MAE, BIAS == their formulas (which elements, argument order, counts, denominators; sqrt uninterpreted; exact instances, so independent of the evaluation order; rounding on general data not decided); perfect prediction gives 0 errors and R2 = 1"))
    for miss in ((0, 2) if tier == "quick" else (0, 1, 2)):
        J.append(Job("regression_formulas_missing@n=3,k=%d" % miss, "C15/stats.c", entry="h_regression_formulas", srcs=S + ["statistic.c"], mode="ieee", kind="bounded",
                     defines={"VC_UNIT_FORMULAS": None, "VC_N": 3, "VC_MISS": miss}, unwind=7, functions=["R2", "MSE", "RMSE", "MAE", "BIAS"], stubs=["stubs/usqrt_stub.c"], timeout=900,
                     bound="3 elements, truth %d missing-coded; other cells symbolic in {0,1,2,3}, total sum of squares a power of two (IEEE, exact instances)" % miss,
                     clause="missing-coded truths are ignored by R2, MSE, RMSE, MAE, BIAS: each equals its formula over the remaining elements"))
    for (n, ny, nlv) in ([(2, 2, 2), (3, 1, 2)] if tier == "quick" else [(2, 2, 2), (3, 1, 2), (3, 2, 1), (3, 2, 2)]):
        J.append(Job("PLSRegressionStatistics@n=%d,ny=%d,nlv=%d" % (n, ny, nlv), "C15/stats.c", entry="h_PLSRegressionStatistics",
                     srcs=["matrix.c", "vector.c", "memwrapper.c", "numeric.c", "tensor.c", "list.c", "statistic.c", "preprocessing.c", "pca.c"], kind="bounded",
                     defines={"VC_UNIT_TABLE": None, "VC_N": n, "VC_NY": ny, "VC_NLV": nlv}, unwind=max(n, ny * nlv) + 4, functions=["PLSRegressionStatistics"],
                     bound="%d rows, %d responses, %d latent variables; values symbolic, one optional missing-coded truth" % (n, ny, nlv),
                     clause="PLS statistic tables = R2/RMSE/BIAS per (latent variable, response) on the right columns, missing-coded rows removed"))
    return J
