from run import Job

MANIFEST = dict(
    category="other",
    text="Narrow claim: the matrix and vector-list (de)serialisers (for tensors the serialising half - length, layout, in-bounds writes for blocks of different shapes - is decided; the full tensor round trip is attempted in the thorough tier only because the deserialiser's loop bounds are symbolic for the solver) of io.c are inverse on their real bodies for bounded concrete shapes "
         "with symbolic contents (tensor blocks of different shapes, empty vectors), the serialised length formulas hold, every buffer access is "
         "in bounds, and serialising does not modify the in-memory object. This is the part of 'reads back equal' that lives in the library's own code.",
    note="Nothing is decided about write/read histories, table names, the %.18f text round trip or DropAllTables: they depend on SQLite (external), "
         "which cannot be put under a contract here without assuming the answer; the defect F11 (DropAllTables only generates DROP statements, a second "
         "write appends) is therefore outside this check's reach and is not reported by it. WriteX/ReadX field agreement is not under contract.",
    technique="CBMC on the real static serialiser pairs of io.c (included); round-trip postconditions as harness assertions; bounded shapes")

META = dict(decided="serialise/deserialise are inverse (shapes and cells), length formulas, in-bounds, source unchanged",
            not_decided="histories of writes, SQL behaviour (DropAllTables), text round trip of doubles, field/table agreement of WriteX/ReadX, predictions of a re-read model",
            trusted_base=[], assumptions=["dimensions < 2^53 (size_t <-> double exact)"])

S = ["matrix.c", "vector.c", "memwrapper.c", "numeric.c", "tensor.c", "list.c"]

def jobs(tier):
    J = []
    for (r, c) in ([(2, 3), (0, 2), (3, 1), (1, 1)] if tier == "quick" else [(2, 3), (0, 2), (3, 1), (1, 1), (3, 3), (4, 2), (2, 0)]):
        J.append(Job("matrix_roundtrip@r=%d,c=%d" % (r, c), "C16/serial.c", entry="h_matrix_roundtrip", srcs=S, kind="bounded", defines={"VC_R": r, "VC_C": c},
                     unwind=max(r, c) + 3, unwindset=["DVectorResize.0:%d" % (r * c + 5)], functions=["serialize_matrix", "deserialize_matrix"], bound="%dx%d matrix, contents symbolic" % (r, c),
                     clause="matrix serialiser pair is inverse; length formula; source unchanged"))
        J.append(Job("list_roundtrip@n1=%d,n2=%d" % (r, c), "C16/serial.c", entry="h_list_roundtrip", srcs=S, kind="bounded", defines={"VC_R": r, "VC_C": c},
                     unwind=max(r, c, 2) + 3, unwindset=["DVectorResize.0:%d" % (r + c + 4)], functions=["serialize_dvectorlist", "deserialize_dvectorlist"], bound="two vectors of lengths %d and %d, contents symbolic" % (r, c),
                     clause="vector-list serialiser pair is inverse; length formula"))
    for (r, c, r2, c2) in ([(1, 2, 3, 1), (2, 2, 1, 3), (3, 1, 1, 1)] if tier == "quick" else [(1, 2, 3, 1), (2, 2, 1, 3), (3, 1, 1, 1), (2, 3, 3, 2), (1, 1, 4, 2)]):
        J.append(Job("tensor_serialize@%dx%d,%dx%d" % (r, c, r2, c2), "C16/serial.c", entry="h_tensor_serialize", srcs=S, kind="bounded",
                     defines={"VC_R": r, "VC_C": c, "VC_R2": r2, "VC_C2": c2}, unwind=max(r, c, r2, c2, 2) + 3, unwindset=["DVectorResize.0:%d" % (r * c + r2 * c2 + 8)],
                     functions=["serialize_tensor"], bound="two blocks %dx%d and %dx%d, contents symbolic" % (r, c, r2, c2),
                     clause="tensor serialiser: length formula, layout, in-bounds writes for blocks of different shapes"))
        if tier == "quick":
            continue    # the deserialiser's loop bounds come back from double->size_t conversions that symex does not fold; the instances exhaust the solver's memory. Thorough tier only.
        J.append(Job("tensor_roundtrip@%dx%d,%dx%d" % (r, c, r2, c2), "C16/serial.c", entry="h_tensor_roundtrip", srcs=S, kind="bounded",
                     defines={"VC_R": r, "VC_C": c, "VC_R2": r2, "VC_C2": c2}, unwind=max(r, c, r2, c2, 2) + 3, cbmc_flags=["--slice-formula"], functions=["serialize_tensor", "deserialize_tensor"],
                     advisory=True, timeout=600, tier="thorough",
                     bound="two blocks %dx%d and %dx%d, contents symbolic" % (r, c, r2, c2), clause="tensor serialiser pair is inverse for blocks of different shapes; length formula"))
    return J
