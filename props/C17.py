from run import Job

MANIFEST = dict(
    category="other",
    text="The greedy max-min specification is decided on the real bodies of MaxDis and MaxDis_Fast for bounded object counts with arbitrary (oracle) distance values, "
         "hence for every metric: indices in range, pairwise distinct, requested count; the first element is the object farthest from the centroid; "
         "every further element maximises, over the objects not yet chosen, the minimum distance to those already chosen (first maximum on ties). "
         "The two steps of a k-means iteration are decided on their real bodies: in exact ring arithmetic (double := Z/256) every object of a worker's slice gets an in-range label "
         "that minimises the squared distance (first minimum; sqrt by contract = any strictly increasing function), the worker writes nothing outside its slice and agrees with the single-thread routine; "
         "on exact IEEE instances (small integer cells, clusters of 1 or 2 objects) each centroid is the mean of the objects carrying its label, an empty cluster takes an in-range object. "
         "The k-means labelling partition among threads is decided under C13 (slice_getLabels_).",
    note="Bounded (objects <= 3: four objects exhaust the solver's memory; selection sizes up to and above the object count). MaxDis_Fast is checked against the same specification for selection sizes up to the object count (it does not clamp larger requests); MDC and k-means++ selections (distinctness) are not under contract; the k-means step obligations use ring mode / exact instances (rounding and the convergence tolerance are not decided). "
         "Distances are oracles: CalculateDistance and the centroid distance (one variable, sqrt identity on the oracle tags).",
    technique="CBMC on the real MaxDis body with oracle distances; postconditions as harness assertions; bounded object counts")

META = dict(decided="MaxDis and MaxDis_Fast: range, distinctness, count, first = farthest from centroid, greedy max-min step (same specification); k-means labelling = in-range first nearest centroid, worker frame, worker == single-thread; centroid = mean of its objects",
            not_decided="MDC / k-means++ selections; rounding in the k-means steps; convergence tolerance semantics",
            trusted_base=["oracle distances in harness/C17/maxdis.c"], assumptions=[])

S = ["matrix.c", "vector.c", "memwrapper.c", "numeric.c"]

def jobs(tier):
    J = []
    # 4 objects exhaust the 12 GB solver memory cap (symbolic selection indices make every later shape symbolic)
    cfg = [(3, 1), (3, 2), (3, 3), (3, 5), (2, 2), (2, 1), (1, 1)]
    for (nobj, nsel) in cfg:
        J.append(Job("MaxDis@nobj=%d,nsel=%d" % (nobj, nsel), "C17/maxdis.c", entry="h_MaxDis", srcs=S, kind="bounded", defines={"VC_NOBJ": nobj, "VC_NSEL": nsel},
                     unwind=nobj + 4, functions=["MaxDis"], timeout=900, object_bits=12, cbmc_flags=["--slice-formula"], bound="%d objects, %d requested; all distance values arbitrary" % (nobj, nsel),
                     clause="MaxDis greedy max-min specification"))
    for (nobj, nsel) in [(3, 1), (3, 2), (3, 3), (2, 2), (1, 1)]:
        J.append(Job("MaxDis_Fast@nobj=%d,nsel=%d" % (nobj, nsel), "C17/maxdis_fast.c", entry="h_MaxDis_Fast", srcs=S + ["metricspace.c", "stubs/memmove_stub.c"], kind="bounded",
                     defines={"VC_NOBJ": nobj, "VC_NSEL": nsel}, unwind=nobj + 4, unwindset=["memmove.0:%d" % (8 * nobj + 2), "memmove.1:%d" % (8 * nobj + 2)],
                     functions=["MaxDis_Fast", "square_to_condensed_index"], timeout=900, object_bits=12, cbmc_flags=["--slice-formula"],
                     bound="%d objects, %d requested (<= objects); all pair distances arbitrary" % (nobj, nsel),
                     clause="MaxDis_Fast satisfies the same greedy max-min specification as MaxDis (so both return the same sequence whenever the condensed and square distances agree, C13)"))
    KS = ["vector.c", "memwrapper.c", "numeric.c", "matrix.c", "metricspace.c", "tensor.c", "list.c", "statistic.c", "pca.c", "preprocessing.c", "algebra.c", "graphs.c"]
    for (r, c, k) in ([(3, 1, 2), (2, 1, 3)] if tier == "quick" else [(3, 1, 2), (2, 1, 3), (2, 1, 2), (1, 1, 1)]):   # two variables (sum of two wrapped squares) and 3 objects x 3 centroids did not finish in 900 s
        J.append(Job("kmeans_labels@r=%d,c=%d,k=%d" % (r, c, k), "C17/kmeans_steps.c", entry="h_kmeans_labels", srcs=KS, kind="bounded", mode="ring", defines={"VC_R": r, "VC_C": c, "VC_K": k},
                     unwind=max(r, c, k) + 3, functions=["getLabelsWorker", "getLabels"], timeout=900, bound="%d objects x %d variables, %d centroids; cells symbolic in -8..7 in the ring Z/256; every slice" % (r, c, k),
                     clause="k-means labelling: label in range, a nearest centroid (first minimum), frame of the worker slice, worker == single-thread"))
    for (lab, r, c, k) in (# cluster sizes 1 and 2 only: the mean is then exactly representable even when evaluated as a running mean (exact instances)
                           [("{0,1,0}", 3, 1, 2), ("{1,1}", 2, 2, 2), ("{2,0,2}", 3, 1, 3)] if tier == "quick" else
                           [("{0,1,0}", 3, 1, 2), ("{1,1}", 2, 2, 2), ("{2,0,2}", 3, 1, 3), ("{0,1,1,0}", 4, 2, 2), ("{1,0,2,1}", 4, 1, 3), ("{3,3,0}", 3, 1, 4)]):
        tag = "lab=%s,c=%d,k=%d" % (lab.replace(",", ""), c, k)
        J.append(Job("kmeans_centroids@" + tag, "C17/kmeans_steps.c", entry="h_kmeans_centroids", srcs=KS, kind="bounded", mode="ieee", defines={"VC_R": r, "VC_C": c, "VC_K": k, "VC_LAB": lab},
                     unwind=max(r, c, k) + 3, functions=["getCentroids"], timeout=900, bound="labels %s over %d clusters, %d variables; cells symbolic in {0,1,2,3} (IEEE, exact instances)" % (lab, k, c),
                     clause="k-means centroid update: centroid = mean of the objects carrying its label; empty cluster = an in-range object; labels untouched"))
    return J
