from run import Job

MANIFEST = dict(
    category="other",
    text="The greedy max-min specification is decided on the real bodies of MaxDis and MaxDis_Fast for bounded object counts with arbitrary (oracle) distance values, "
         "hence for every metric: indices in range, pairwise distinct, requested count; the first element is the object farthest from the centroid; "
         "every further element maximises, over the objects not yet chosen, the minimum distance to those already chosen (first maximum on ties). "
         "The k-means labelling partition among threads is decided under C13 (slice_getLabels_).",
    note="Bounded (objects <= 3: four objects exhaust the solver's memory; selection sizes up to and above the object count). MaxDis_Fast is checked against the same specification for selection sizes up to the object count (it does not clamp larger requests); MDC, k-means++ and the k-means centroid/nearest-centroid "
         "clauses are not under contract. "
         "Distances are oracles: CalculateDistance and the centroid distance (one variable, sqrt identity on the oracle tags).",
    technique="CBMC on the real MaxDis body with oracle distances; postconditions as harness assertions; bounded object counts")

META = dict(decided="MaxDis and MaxDis_Fast: range, distinctness, count, first = farthest from centroid, greedy max-min step (same specification)",
            not_decided="MDC / k-means++ selections; k-means centroid = mean and nearest-centroid labels (numerical); convergence tolerance semantics",
            trusted_base=["oracle distances in harness/C17/maxdis.c"], assumptions=[])

S = ["matrix.c", "vector.c", "memwrapper.c", "numeric.c"]

def jobs(tier):
    J = []
    # 4 objects exhaust the 12 GB solver memory cap (symbolic selection indices make every later shape symbolic)
    cfg = [(3, 1), (3, 2), (3, 3), (3, 5), (2, 2), (2, 1), (1, 1)]
    for (nobj, nsel) in cfg:
        J.append(Job("MaxDis@nobj=%d,nsel=%d" % (nobj, nsel), "C17/maxdis.c", entry="h_MaxDis", srcs=S, kind="bounded", defines={"VC_NOBJ": nobj, "VC_NSEL": nsel},
                     unwind=nobj + 4, functions=["MaxDis"], timeout=900, object_bits=12, cbmc_flags=["--slice-formula"], bound="%d objects, %d requested; all distance values arbitrary" % (nobj, nsel),
                     clause="MaxDis greedy max-min specification"))
    for (nobj, nsel) in [(3, 1), (3, 2), (3, 3), (2, 2), (1, 1)]:
        J.append(Job("MaxDis_Fast@nobj=%d,nsel=%d" % (nobj, nsel), "C17/maxdis_fast.c", entry="h_MaxDis_Fast", srcs=S + ["metricspace.c", "stubs/memmove_stub.c"], kind="bounded",
                     defines={"VC_NOBJ": nobj, "VC_NSEL": nsel}, unwind=nobj + 4, unwindset=["memmove.0:%d" % (8 * nobj + 2), "memmove.1:%d" % (8 * nobj + 2)],
                     functions=["MaxDis_Fast", "square_to_condensed_index"], timeout=900, object_bits=12, cbmc_flags=["--slice-formula"],
                     bound="%d objects, %d requested (<= objects); all pair distances arbitrary" % (nobj, nsel),
                     clause="MaxDis_Fast satisfies the same greedy max-min specification as MaxDis (so both return the same sequence whenever the condensed and square distances agree, C13)"))
    return J
