from run import Job

MANIFEST = dict(
    category="other",
    text="Termination is decided as the existence of a data-independent iteration bound on the real main loops, with every numerical callee "
         "replaced by an adversarial oracle (convergence measure NaN, centroids that never settle, arbitrary objective values): k-means and "
         "the simplex minimiser are shown to stop through their iteration counters (unwinding with unwinding assertions: complete, since the "
         "oracle is adversarial); the NIPALS loops of PCA() and LVCalc() (PLS) have no such bound - the only exit is 'convergence < tolerance', "
         "which a NaN never satisfies - and are reported as known findings, replayed natively (PCA / PLS on an all-zero matrix do not return).",
    note="CPCA / UPCA / UPLS loops have the same shape and are not separately checked. Finiteness and identities of the leading components and "
         "'explained variance beyond the rank is zero' are numerical and not decided. Unwinding depth: 110 (k-means ceiling is 100), 8 for the NIPALS witness.",
    technique="CBMC on the real main loops with adversarial oracle callees; iteration bound by unwinding assertions; native non-termination replay")

META = dict(decided="k-means and simplex main loops have a data-independent iteration bound; PCA and PLS NIPALS loops have none (known finding F12)",
            not_decided="finiteness / identities of leading components on degenerate data; CPCA loop; explained variance beyond the rank",
            trusted_base=["adversarial oracles in harness/C18/term.c"], assumptions=[])

S = ["matrix.c", "vector.c", "memwrapper.c", "numeric.c", "tensor.c", "list.c"]

def jobs(tier):
    J = []
    J.append(Job("kmeans_bound", "C18/term.c", entry="h_kmeans_bound", srcs=S + ["metricspace.c"], kind="bounded", defines={"VC_UNIT_KMEANS": None}, unwind=110, remove_bodies=["getLabels_", "getCentroids"], stubs=["stubs/c18_stubs.c"],
                 functions=["KMeans", "shouldStop"], timeout=1200, bound="2 objects x 1 variable, 1 cluster; centroid update adversarial; unwinding 110",
                 clause="k-means main loop ends through its iteration ceiling for any centroid sequence", unwind_is_property=["KMeans"]))
    for it in ((1, 3) if tier == "quick" else (0, 1, 2, 3, 5)):
        J.append(Job("simplex_bound@iter=%d" % it, "C18/term.c", entry="h_simplex_bound", srcs=S, kind="bounded", defines={"VC_UNIT_SIMPLEX": None, "VC_ITER": it},
                     unwind=it + 4, functions=["NelderMeadSimplex"], bound="dimension 1, iteration budget %d, objective values arbitrary (incl. NaN), tolerance test disabled" % it,
                     clause="simplex main loop ends through its iteration counter for any objective", unwind_is_property=["NelderMeadSimplex"]))
    J.append(Job("nipals_bound@PCA", "C18/term.c", entry="h_nipals_PCA", srcs=S + ["preprocessing.c"], kind="bounded", defines={"VC_UNIT_PCA": None}, unwind=8, remove_bodies=["calcConvergence"], stubs=["stubs/c18_stubs.c"],
                 functions=["PCA"], bound="2x2 matrix, 1 component; convergence measure adversarial (NaN); unwinding 8",
                 clause="PCA NIPALS loop has an iteration bound independent of the floating-point convergence test", unwind_is_property=["PCA"], timeout_is_nontermination=True))
    J.append(Job("nipals_bound@LVCalc", "C18/term.c", entry="h_nipals_LVCalc", srcs=S + ["preprocessing.c", "pca.c"], kind="bounded", defines={"VC_UNIT_PLS": None}, unwind=8,
                 functions=["LVCalc"], bound="2x2 / 2x1 blocks; convergence measure adversarial (NaN); unwinding 8",
                 clause="PLS NIPALS loop (LVCalc) has an iteration bound independent of the floating-point convergence test", unwind_is_property=["LVCalc"], timeout_is_nontermination=True))
    return J
