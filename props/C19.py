from run import Job

MANIFEST = dict(
    category="other",
    text="Piece selection of the spline evaluator decided on the real body for every strictly increasing knot vector with spacing >= 1e-4 (symbolic "
         "knots and abscissa, 2..4 pieces): an abscissa strictly inside piece j is evaluated with the coefficients of piece j, at any scale of x; "
         "coefficient table layout (one row per interval, left knot, ordinate = the spline passes through the knots) and all variable-length-"
         "array indices in bounds for 3..5 points; the trapezoid area (curve_area without interpolation) equals the exact integral of the polyline and is additive over every split point, on exact "
         "instances (integer abscissae/ordinates 0..3, 3..4 points: independent of the evaluation order); the natural spline of three collinear points with knot spacings 1 or 2 is the line itself "
         "(b = slope, c = d = 0, evaluation at multiples of 1/2 exact).",
    note="Bounded number of pieces/points. C2 continuity, natural end conditions, reproduction of straight lines beyond three points / on general data, the trapezoid area on general data and the "
         "simplex minimiser's convergence are numerical and not decided; the simplex's reported-value / no-worse-than-start clauses are decided for dimension 1 and <= 1 iteration (2 in the thorough tier) with an arbitrary deterministic objective.",
    technique="CBMC on the real spline bodies with a precondition-selected coefficient instance (piece j = constant j); bounded pieces")

META = dict(decided="trapezoid area == polyline integral and additivity, straight-line reproduction (exact instances); piece lookup independent of knot spacing/scale; table layout; index safety of the tridiagonal solve arrays; simplex: reported value = f(returned point), never worse than the best initial vertex (dimension 1)",
            not_decided="C2 continuity, end conditions, line reproduction beyond the exact instances, unit independence of coefficients, trapezoid area on general (not exactly representable) data, simplex convergence",
            trusted_base=[], assumptions=["knots within +-1e4, spacing >= 1e-4 (the property's range)"])

S = ["interpolate.c", "matrix.c", "vector.c", "memwrapper.c", "numeric.c"]

def jobs(tier):
    J = []
    for p in ((2, 3, 4) if tier == "quick" else (2, 3, 4, 5)):
        for j in range(p):
            J.append(Job("piece_selection@P=%d,j=%d" % (p, j), "C19/spline.c", entry="h_piece_selection", srcs=S, kind="bounded", defines={"VC_P": p, "VC_J": j},
                         unwind=max(p, 5) + 3, functions=["cubic_spline_predict"], timeout=900,
                         bound="%d pieces, ghost piece %d; knots and abscissa symbolic (spacing >= 1e-4, |x| <= 1e4)" % (p, j),
                         clause="abscissa strictly inside piece j is evaluated with piece j for any knot spacing"))
    for n in ((3, 4) if tier == "quick" else (3, 4, 5)):
        J.append(Job("table_layout@n=%d" % n, "C19/spline.c", entry="h_table_layout", srcs=S, kind="bounded", defines={"VC_NPTS": n}, unwind=max(n, 5) + 3, cbmc_flags=["--slice-formula"],
                     functions=["cubic_spline_interpolation"], timeout=900, bound="%d points, abscissae/ordinates symbolic" % n,
                     clause="coefficient table layout; spline passes through the knots; VLA indices in bounds"))
    for n in (3,):   # 4 points (two interior knots) did not finish in 900 s
        J.append(Job("line_reproduction@n=%d" % n, "C19/spline.c", entry="h_line_reproduction", srcs=S, kind="bounded", defines={"VC_NPTS": n, "VC_LINE": None}, unwind=max(n, 5) + 3,
                     functions=["cubic_spline_interpolation", "cubic_spline_predict"], timeout=900, bound="%d collinear points, knot spacings 1 or 2, integer slope -2..2 / intercept 0..1 (IEEE, exact instances)" % n,
                     clause="the natural spline of collinear points is the line: b = slope, c = d = 0 on every piece, evaluation at multiples of 1/2 equals the line"))
    for n in ((3, 4) if tier == "quick" else (2, 3, 4)):
        J.append(Job("trapezoid@n=%d" % n, "C19/trapezoid.c", entry="h_trapezoid", srcs=["matrix.c", "vector.c", "memwrapper.c", "numeric.c", "interpolate.c"], kind="bounded", defines={"VC_N": n},
                     unwind=n + 3, functions=["curve_area"], timeout=900, bound="%d points, integer abscissae/ordinates in 0..3 (IEEE, exact instances)" % n,
                     clause="trapezoid area == exact integral of the polyline; additive over every split point; input unchanged"))
    for it in ((0, 1) if tier == "quick" else (0, 1, 2)):   # 2 iterations take ~7 min
        J.append(Job("simplex_value@iter=%d" % it, "C19/simplex.c", entry="h_simplex_value", srcs=["matrix.c", "vector.c", "memwrapper.c", "numeric.c"], kind="bounded",
                     defines={"VC_ITER": it}, unwind=max(it + 3, 26), functions=["NelderMeadSimplex"], timeout=900, object_bits=10,
                     bound="dimension 1, %d iteration(s), objective an arbitrary deterministic function (oracle with memo table)" % it,
                     clause="simplex: reported value = objective at the returned point; never worse than the best initial vertex"))
    return J
