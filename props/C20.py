import os, sys
from run import Job, WORK, SRC, VERIF, ensure_cfg
sys.path.insert(0, os.path.join(VERIF, "abi"))

MANIFEST = dict(
    category="translation_validation",
    text="Every ctypes Structure and every lsci.<f>.argtypes/restype declaration in src/python_bindings/libscientific/*.py is re-derived "
         "from source on each run (python ast, no import) and compared with the C declarations as parsed by the verifier's own C front "
         "end: per field offset/type/count/sizeof, per function declared+defined+prototype-compatible. The comparisons are emitted as "
         "loop-free __CPROVER_assert obligations over offsetof/sizeof/__builtin_types_compatible_p on the real headers and discharged by "
         "cbmc; this is a complete decision for the current tree, not a bounded one.",
    note="Trusted: the ctypes->C type map and natural-alignment layout rule in abi/gen_abi.py (LP64), python's ast, CBMC's C front end. "
         "const-qualification of char* parameters/returns is treated as the same kind. Field names are compared position by position (one documented alias: DVECTLIST.dvector mirrors dvectorlist.d), so that swapping two same-typed members on either side is seen.",
    technique="generated static obligations (offsetof / __builtin_types_compatible_p) on the real headers, discharged by CBMC")

META = dict(level="translation_validation",
            decided="struct layouts and function prototypes of the Python bindings vs the C headers",
            not_decided="run-time behaviour of the Python wrappers beyond the declared prototypes",
            trusted_base=["ctypes->C type map and layout rule in abi/gen_abi.py", "python ast"], assumptions=["LP64 data model"])

_info = {}

def jobs(tier):
    import gen_abi
    wd = os.path.join(WORK, "C20"); os.makedirs(wd, exist_ok=True)
    cfg = ensure_cfg()
    out = os.path.join(wd, "abi_check.c")
    obl, static_fail, info = gen_abi.generate(SRC, cfg, wd, out)
    _info.update(info, obligations=len(obl), static_fail=static_fail, sample=[o[0] + " :: " + o[2] for o in obl[:6]])
    j = Job("abi", out, entry="h_abi", srcs=[], kind="static", static_only=True, bound="complete for the current tree",
            clause="struct layout + prototypes of all bindings", functions=["(all functions named by lsci.<f> in the bindings)"])
    j.pre_failed = [dict(obligation="C20 " + a, description=b, status="FAILURE", location="src/python_bindings/libscientific", function="gen_abi",
                         inputs=[], trace_tail=[]) for a, b in static_fail]
    return [j]

def extra_coverage(results):
    return dict(programs=_info.get("structs", 0) + _info.get("functions", 0), disagreements_checked=_info.get("obligations", 0),
                binding_files=_info.get("files"), structures=_info.get("structs"), functions=_info.get("functions"),
                generator_decided_failures=[list(x) for x in _info.get("static_fail", [])])
