#!/usr/bin/env python3
"""run.py - orchestrator for contract-based verification of libscientific with CBMC.

usage:
  ./run.py <Cxx> [--tier quick|thorough] [--jobs a,b] [-v] [--keep]
  ./run.py <Cxx> --replay <replay-file>
  ./run.py list

exit 0: every claimed obligation discharged (KNOWN-FINDING lines allowed)
exit 1: at least one VIOLATION line printed
exit 2: undecided (timeout, tool error, vacuous run, proof infrastructure broken)
"""
import sys, os, json, re, time, subprocess, shutil, importlib, argparse, resource, hashlib
from concurrent.futures import ThreadPoolExecutor

VERIF = os.path.dirname(os.path.abspath(__file__))
REPO = os.environ.get("VC_REPO", "/repo")
SRC = os.path.join(REPO, "src")
WORK = os.environ.get("VC_WORK", os.path.join(VERIF, ".work"))
# evidence describes /repo itself: a run against another tree (VC_REPO: scratch worktree with a seeded change) keeps its
# evidence next to its work directory and never overwrites /verif/evidence
EVIDENCE_DIR = os.path.join(VERIF, "evidence") if "VC_REPO" not in os.environ else os.path.join(WORK, "evidence")
GUARD = "LIBSCIENTIFIC_VERIF"
NCPU = int(os.environ.get("VC_NCPU", str(os.cpu_count() or 4)))

INFRA_RE = re.compile(r"\.(unwind|recursion|loop_invariant_base|loop_invariant_step|loop_decreases|"
                      r"loop_assigns|loop_step_unwinding|no-body)\.\d+$|\.no-body\.")
CBMC_FLAGS = ["--bounds-check", "--pointer-check", "--div-by-zero-check",
              "--malloc-may-fail", "--malloc-fail-null"]
CBMC_NO_DEFAULT = ["--no-signed-overflow-check", "--no-undefined-shift-check", "--no-pointer-primitive-check"]


class Job:
    """One solver call (or a family of them, expanded over `expand`)."""
    def __init__(self, name, harness, entry=None, srcs=(), enforce=None, replace=(), loop_contracts=False,
                 unwind=None, unwindset=(), defines=None, mode="ieee", remove_bodies=(), stubs=(),
                 backend="sat", timeout=None, kind="bounded", bound="", tier="quick", min_loops=0,
                 clause="", functions=(), cbmc_flags=(), fallback=None, static_only=False,
                 native_srcs=None, native_libs=("-lm",), expect_fail=None, object_bits=None, no_replay=False,
                 native_defines=None, loops=(), unwind_is_property=(), timeout_is_nontermination=False, advisory=False):
        self.name = name; self.harness = harness; self.entry = entry or ("h_" + name.split("@")[0])
        self.srcs = list(srcs); self.enforce = enforce; self.replace = list(replace)
        self.loop_contracts = loop_contracts; self.unwind = unwind; self.unwindset = list(unwindset)
        self.defines = dict(defines or {}); self.mode = mode; self.remove_bodies = list(remove_bodies)
        self.stubs = list(stubs); self.backend = backend; self.timeout = timeout; self.kind = kind
        self.bound = bound; self.tier = tier; self.min_loops = min_loops; self.clause = clause
        self.functions = list(functions) or ([enforce] if enforce else [])
        self.cbmc_flags = list(cbmc_flags); self.fallback = fallback; self.static_only = static_only
        self.native_srcs = native_srcs; self.native_libs = list(native_libs)
        self.expect_fail = expect_fail; self.object_bits = object_bits; self.no_replay = no_replay
        self.native_defines = dict(native_defines or {})
        self.loops = list(loops)
        self.unwind_is_property = list(unwind_is_property); self.timeout_is_nontermination = timeout_is_nontermination
        self.advisory = advisory   # an obligation known not to finish: attempted, reported, but 'undecided' does not fail the check
        if self.loops:
            self.loop_contracts = True

    def variant(self, suffix, **kw):
        import copy
        j = copy.copy(self)
        j.defines = dict(self.defines); j.native_defines = dict(self.native_defines)
        for k, v in kw.items():
            if k == "defines":
                j.defines.update(v)
            else:
                setattr(j, k, v)
        j.name = self.name + "@" + suffix
        return j


def log(*a):
    print(*a, flush=True)


def limits(mem_gb):
    def f():
        b = int(mem_gb * (1 << 30))
        try:
            resource.setrlimit(resource.RLIMIT_AS, (b, b))
        except Exception:
            pass
        os.setsid()
    return f


def sh(cmd, cwd=None, timeout=None, mem_gb=12, env=None, stdout=None):
    t0 = time.time()
    try:
        p = subprocess.Popen(cmd, cwd=cwd, stdout=stdout or subprocess.PIPE, stderr=subprocess.STDOUT,
                             preexec_fn=limits(mem_gb), env=env)
        try:
            out, _ = p.communicate(timeout=timeout)
        except subprocess.TimeoutExpired:
            try:
                os.killpg(p.pid, 9)
            except Exception:
                p.kill()
            p.communicate()
            return -999, b"TIMEOUT", time.time() - t0
        return p.returncode, out or b"", time.time() - t0
    except FileNotFoundError as e:
        return -998, str(e).encode(), 0.0


def ensure_cfg():
    d = os.path.join(WORK, "cfg")
    os.makedirs(d, exist_ok=True)
    s = open(os.path.join(SRC, "scientificconfig.h.in")).read()
    for k in ("MAJOR", "MINOR", "PATCH"):
        s = s.replace("@VERSION_%s@" % k, "0")
    with open(os.path.join(d, "scientificconfig.h"), "w") as f:
        f.write(s)
    return d


def incl_flags():
    return ["-I" + SRC, "-I" + os.path.join(WORK, "cfg"), "-I" + os.path.join(VERIF, "harness"), "-I" + VERIF,
            "-D_GNU_SOURCE"]


def def_flags(d):
    return ["-D%s=%s" % (k, v) if v is not None else "-D%s" % k for k, v in d.items()]


def harness_path(job):
    return job.harness if job.harness.startswith("/") else os.path.join(VERIF, "harness", job.harness)


def src_path(s):
    if s.startswith("/"):
        return s
    if s.startswith("stubs/") or s.startswith("harness/"):
        return os.path.join(VERIF, s)
    return os.path.join(SRC, s)


def run_job(prop, job, tier, verbose=False, loopless=False):
    """Compile, instrument, solve one job. Returns a result dict."""
    wd = os.path.join(WORK, prop, re.sub(r"[^A-Za-z0-9_.@=-]", "_", job.name) + ("+fb" if loopless else ""))
    shutil.rmtree(wd, ignore_errors=True)
    os.makedirs(wd)
    res = dict(job=job.name, kind=job.kind, bound=job.bound, mode=job.mode, backend=job.backend, clause=job.clause,
               functions=job.functions, status="error", obligations=0, discharged=0, failed=[], infra_failed=[],
               solver_s=0.0, wall_s=0.0, detail="", reach_inputs=None, loop_obligations=0, cmds=[])
    t0 = time.time()
    to = job.timeout or (900 if tier == "quick" else 2400)
    defs = {"VC_CBMC": None}
    defs.update(job.defines)
    prelude = []
    if job.mode == "ring":
        prelude = ["-include", os.path.join(VERIF, "harness", "ring_prelude.h")]
    a = os.path.join(wd, "a.gb")
    cmd = ["goto-cc"] + def_flags(defs) + incl_flags() + prelude + ["--function", job.entry,
           harness_path(job)] + [src_path(s) for s in job.srcs] + \
          [os.path.join(VERIF, "stubs", "stdio_stub.c")] + ["-o", a]
    res["cmds"].append(" ".join(cmd))
    rc, out, _ = sh(cmd, cwd=wd, timeout=300)
    if rc != 0:
        res["detail"] = "goto-cc failed: " + out.decode(errors="replace")[-2000:]
        res["wall_s"] = time.time() - t0
        return res
    cur = a
    if job.remove_bodies:
        b = os.path.join(wd, "a2.gb")
        cmd = ["goto-instrument"] + sum([["--remove-function-body", f] for f in job.remove_bodies], []) + [cur, b]
        res["cmds"].append(" ".join(cmd))
        rc, out, _ = sh(cmd, cwd=wd, timeout=300)
        if rc != 0:
            res["detail"] = "remove-function-body failed: " + out.decode(errors="replace")[-2000:]
            return res
        cur = b
    if job.stubs:
        b = os.path.join(wd, "a3.gb")
        cmd = ["goto-cc"] + def_flags(defs) + incl_flags() + prelude + ["--function", job.entry, cur] + \
              [src_path(s) for s in job.stubs] + ["-o", b]
        res["cmds"].append(" ".join(cmd))
        rc, out, _ = sh(cmd, cwd=wd, timeout=300)
        if rc != 0:
            res["detail"] = "stub link failed: " + out.decode(errors="replace")[-2000:]
            return res
        cur = b
    use_dfcc = bool(job.enforce or job.replace or (job.loop_contracts and not loopless))
    if use_dfcc:
        b = os.path.join(wd, "b.gb")
        cmd = ["goto-instrument", "--dfcc", job.entry]
        if job.enforce:
            cmd += ["--enforce-contract", job.enforce]
        for r in job.replace:
            cmd += ["--replace-call-with-contract", r]
        if job.loop_contracts and not loopless:
            cmd += ["--apply-loop-contracts"]
            if job.loops:
                lcf, err = loop_contracts_file(wd, cur, job)
                if lcf is None:
                    res["detail"] = "loop contract file: " + err
                    if job.fallback:
                        res["status"] = "infra"
                        res["infra_failed"] = [dict(obligation="loop-contracts-not-applicable", description=err[-400:], status="ERROR",
                                                    location="?", function=job.enforce or "?", inputs={}, trace_tail=[])]
                    return res
                cmd += ["--loop-contracts-file", lcf]
        cmd += [cur, b]
        res["cmds"].append(" ".join(cmd))
        rc, out, _ = sh(cmd, cwd=wd, timeout=600)
        if rc != 0:
            res["detail"] = "goto-instrument --dfcc failed: " + out.decode(errors="replace")[-3000:]
            res["wall_s"] = time.time() - t0
            if job.loop_contracts and not loopless and job.fallback:
                # the loop contracts no longer fit the code (renamed local, restructured loop): the proof is broken, the
                # property is not; let the bounded stand-in look for a concrete failure
                res["status"] = "infra"
                res["infra_failed"] = [dict(obligation="loop-contracts-not-applicable", description=res["detail"][-400:], status="ERROR",
                                            location="?", function=job.enforce or "?", inputs={}, trace_tail=[])]
            return res
        cur = b
    cmd = ["cbmc", cur, "--json-ui", "--trace"] + CBMC_FLAGS + CBMC_NO_DEFAULT
    unwind = job.unwind
    if loopless and job.fallback:
        unwind = job.fallback.get("unwind", unwind)
    if unwind is not None:
        cmd += ["--unwind", str(unwind), "--unwinding-assertions"]
    for u in job.unwindset:
        cmd += ["--unwindset", u]
    if job.object_bits:
        cmd += ["--object-bits", str(job.object_bits)]
    if job.backend == "cvc5":
        cmd += ["--cvc5"]
    elif job.backend == "z3":
        cmd += ["--z3"]
    elif job.backend == "kissat":
        cmd += ["--external-sat-solver", "kissat"]
    cmd += job.cbmc_flags
    res["cmds"].append(" ".join(cmd))
    outp = os.path.join(wd, "out.json")
    with open(outp, "wb") as fo:
        rc, _, el = sh(cmd, cwd=wd, timeout=to, stdout=fo)
    res["solver_s"] = round(el, 2)
    res["wall_s"] = round(time.time() - t0, 2)
    if rc == -999:
        res["status"] = "timeout"; res["detail"] = "cbmc timeout after %ds" % to
        return res
    try:
        o = json.load(open(outp))
    except Exception as e:
        res["detail"] = "cbmc output unparsable (rc=%s): %s" % (rc, open(outp, errors="replace").read()[-1500:])
        return res
    results = None
    msgs = []
    for e in o:
        if "result" in e:
            results = e["result"]
        if e.get("messageType") in ("ERROR", "WARNING"):
            msgs.append(e.get("messageText", ""))
    if results is None:
        res["detail"] = "cbmc produced no result (rc=%s): %s" % (rc, " | ".join(msgs)[-1500:])
        return res
    if any("ignoring forall" in m or "ignoring exists" in m for m in msgs):
        res["detail"] = "quantifier ignored by back end"; return res
    reach_ok = False
    samples = []
    for r in results:
        name = r["property"]; desc = r.get("description", ""); st = r["status"]
        if "VC_REACH" in desc:
            if st == "FAILURE":
                reach_ok = True
                res["reach_inputs"] = trace_inputs(r.get("trace", []))
            continue
        res["obligations"] += 1
        if re.search(r"loop_invariant_step|loop_decreases", name):
            res["loop_obligations"] += 1
        if st == "SUCCESS":
            res["discharged"] += 1
            if len(samples) < 4 and not name.startswith("__CPROVER") and (re.search(r"postcondition|loop_invariant_step|\.assigns\.", name) or desc.startswith("VC_CHECK") or desc.startswith("C20 ") or desc.startswith("C06 ")):
                samples.append("%s: %s" % (name, desc[:140]))
        elif st != "FAILURE":
            # UNKNOWN: the back end did not decide this obligation (e.g. every path to it was cut by a failed unwinding
            # assertion); neither discharged nor refuted
            res["unknown"] = res.get("unknown", 0) + 1
        else:
            loc = r.get("sourceLocation", {})
            if desc.startswith("C20 "):
                name = desc.split(" :: ")[0]
            item = dict(obligation=name, description=desc, status=st,
                        location="%s:%s" % (loc.get("file", "?"), loc.get("line", "?")),
                        function=loc.get("function", "?"),
                        inputs=trace_inputs(r.get("trace", [])), trace_tail=trace_tail(r.get("trace", [])))
            is_term = bool(job.unwind_is_property) and re.search(r"\.unwind\.\d+$", name) and any(name.startswith(f + ".") for f in job.unwind_is_property)
            if is_term:
                # termination jobs: a failed unwinding assertion on the designated loop IS the property (no data-independent bound)
                item["description"] = "no iteration bound within the unwinding depth: " + desc
                res["failed"].append(item)
            elif INFRA_RE.search(name) or "unwinding assertion" in desc or "recursion unwinding" in desc \
               or "no body" in desc or "no-body" in name:
                res["infra_failed"].append(item)
            else:
                res["failed"].append(item)
    res["samples"] = samples
    for item in getattr(job, "pre_failed", []):
        res["obligations"] += 1
        res["failed"].append(item)
    if any(r["status"] == "ERROR" for r in results):
        res["status"] = "error"; res["failed"] = []; res["infra_failed"] = []
        res["detail"] = "solver error (out of memory?): " + " | ".join(msgs)[-300:]
        return res
    if not reach_ok and res["failed"] and (job.unwind_is_property or not (job.loop_contracts and not loopless)):
        # a failed assertion comes with a concrete trace and is real whether or not the end of the harness is reachable
        # (e.g. a loop whose bound wrapped around: the unwinding assertion cuts every path, the out-of-bounds read before it stands)
        res["status"] = "failed"
        return res
    if not reach_ok:
        res["status"] = "vacuous"; res["detail"] = "VC_REACH witness not reachable: every path is cut before the end of the harness" + (
            " (failed: %s)" % ", ".join(i["obligation"] for i in (res["infra_failed"] + res["failed"])[:4]) if (res["infra_failed"] or res["failed"]) else "")
        return res
    if job.loop_contracts and not loopless and res["loop_obligations"] < job.min_loops:
        res["status"] = "error"; res["detail"] = "expected >= %d loop step/variant obligations, saw %d (loop contract dropped?)" % (job.min_loops, res["loop_obligations"])
        return res
    if res.get("unknown") and not res["failed"] and not res["infra_failed"]:
        res["status"] = "error"; res["detail"] = "%d obligations left UNKNOWN by the back end" % res["unknown"]
        return res
    if res["failed"]:
        res["status"] = "failed"
    elif res["infra_failed"]:
        res["status"] = "infra"
    else:
        res["status"] = "ok"
    if not verbose and not os.environ.get("VC_KEEP"):
        for f in ("a.gb", "a2.gb", "a3.gb", "b.gb"):
            try:
                os.remove(os.path.join(wd, f))
            except OSError:
                pass
        if res["status"] == "ok":
            try:
                os.remove(outp)
            except OSError:
                pass
    return res


def loop_contracts_file(wd, gb, job):
    """Loop contracts live in /verif/contracts/loops.py keyed by (function, loop ordinal); they are handed to
    goto-instrument --loop-contracts-file, with the local-variable symbol map derived from the goto binary."""
    from contracts import loops as LC
    rc, out, _ = sh(["goto-instrument", "--show-symbol-table", "--json-ui", gb], cwd=wd, timeout=300)
    try:
        st = None
        for e in json.loads(out.decode()):
            if "symbolTable" in e:
                st = e["symbolTable"]
        names = list(st.keys())
    except Exception as e:
        return None, "cannot read symbol table: %s" % e
    funcs = []
    for fn in job.loops:
        if fn not in LC.LOOPS:
            return None, "no loop contracts for %s" % fn
        loc = {}
        for n in names:
            if n.startswith(fn + "::"):
                base = n.split("::")[-1]
                if "$" in base or "#" in base:
                    continue
                loc.setdefault(base, []).append(n)
        entries = []
        for k, lc in enumerate(LC.LOOPS[fn]):
            if lc is None:
                continue
            text = " ".join([lc.get("assigns", ""), lc.get("inv", ""), lc.get("dec", "")])
            sm = []
            for base, syms in sorted(loc.items()):
                if not re.search(r"(?<![A-Za-z0-9_>.])%s(?![A-Za-z0-9_])" % re.escape(base), text):
                    continue
                ov = lc.get("map", {}).get(base)
                if ov:
                    sm.append("%s,%s" % (base, ov))
                elif len(syms) == 1:
                    sm.append("%s,%s" % (base, syms[0]))
                else:
                    # prefer the outermost scope (fewest components)
                    syms.sort(key=lambda x: (x.count("::"), x))
                    sm.append("%s,%s" % (base, syms[0]))
            ent = {"loop_id": str(lc.get("id", k)), "invariants": lc["inv"], "symbol_map": ";".join(sm)}
            if lc.get("assigns"):
                ent["assigns"] = lc["assigns"]
            if lc.get("dec"):
                ent["decreases"] = lc["dec"]
            entries.append(ent)
        funcs.append({fn: entries})
    p = os.path.join(wd, "loops.json")
    with open(p, "w") as f:
        json.dump({"sources": [harness_path(job)], "functions": funcs, "output": "OUTPUT"}, f, indent=1)
    return p, None


def trace_inputs(trace):
    ins = []
    for s in trace:
        if s.get("stepType") == "assignment" and s.get("lhs") in ("vc_trace_u64", "vc_trace_f64"):
            if s.get("sourceLocation", {}).get("function") not in ("vc_in_u64", "vc_in_f64"):
                continue   # static initialisation of the trace variables
            v = s.get("value", {})
            b = v.get("binary")
            if b is None:
                continue
            ins.append(("u64" if s["lhs"].endswith("u64") else "f64", "%x" % int(b, 2), v.get("data")))
    return ins


def trace_tail(trace, n=25):
    out = []
    for s in trace[-200:]:
        if s.get("stepType") == "assignment" and not s.get("hidden") and "lhs" in s:
            loc = s.get("sourceLocation", {})
            out.append("%s:%s %s = %s" % (os.path.basename(loc.get("file", "?")), loc.get("line", "?"), s["lhs"],
                                          s.get("value", {}).get("data", s.get("value", {}).get("name"))))
    return out[-n:]


import threading
_native_lock = threading.Lock()
NATIVE_LIBS = ["-lm", "-lpthread", "/usr/lib/x86_64-linux-gnu/libopenblas.so", "-ldl", "/usr/lib/x86_64-linux-gnu/libsqlite3.so"]
SAN = ["-g", "-O0", "-fsanitize=address,undefined", "-fno-sanitize-recover=undefined", "-fno-omit-frame-pointer", "-w"]


def native_lib():
    """ASan/UBSan static library of the current /repo/src tree (guard off), built once per run."""
    with _native_lock:
        d = os.path.join(WORK, "native")
        lib = os.path.join(d, "libsci_asan.a")
        stamp = os.path.join(d, "stamp")
        cm = open(os.path.join(SRC, "CMakeLists.txt")).read()
        m = re.search(r"set\(Scientific_C_SRCS(.*?)\)", cm, re.S)
        srcs = sorted(m.group(1).split()) if m else sorted(f for f in os.listdir(SRC) if f.endswith(".c"))
        h = hashlib.sha1()
        for f in sorted(os.listdir(SRC)):
            if f.endswith((".c", ".h")):
                h.update(open(os.path.join(SRC, f), "rb").read())
        if os.path.exists(lib) and os.path.exists(stamp) and open(stamp).read() == h.hexdigest():
            return lib, None
        shutil.rmtree(d, ignore_errors=True)
        os.makedirs(d)
        ensure_cfg()
        def cc(f):
            # datasets.c is a large table of literals: instrumenting it takes tens of minutes and it contains no code under test
            san = ["-g", "-O0", "-w"] if f == "datasets.c" else SAN
            return sh(["gcc", "-c", "-fPIC"] + san + incl_flags() + [os.path.join(SRC, f), "-o", os.path.join(d, f[:-2] + ".o")], cwd=d, timeout=600, mem_gb=64)
        with ThreadPoolExecutor(max_workers=NCPU) as ex:
            rs = list(ex.map(cc, srcs))
        for (rc, out, _), f in zip(rs, srcs):
            if rc != 0:
                return None, "native compile of %s failed: %s" % (f, out.decode(errors="replace")[-1500:])
        rc, out, _ = sh(["ar", "rcs", lib] + [os.path.join(d, f[:-2] + ".o") for f in srcs], cwd=d, timeout=300, mem_gb=64)
        if rc != 0:
            return None, "ar failed: " + out.decode(errors="replace")
        open(stamp, "w").write(h.hexdigest())
        return lib, None


REPLAY_TIMEOUT = 10
MAX_REPLAYS_PER_PROPERTY = 8


def native_replay(prop, job, inputs, tag):
    """Compile the same harness natively against the real sources and run it on the recorded inputs."""
    wd = os.path.join(WORK, prop, "replay_" + re.sub(r"[^A-Za-z0-9_.@=-]", "_", job.name))
    os.makedirs(wd, exist_ok=True)
    exe = os.path.join(wd, "replay.exe")
    defs = {"VC_NATIVE": None, "VC_ENTRY": job.entry}
    defs.update(job.defines); defs.update(job.native_defines)
    prelude = ["-include", os.path.join(VERIF, "harness", "ring_prelude.h")] if job.mode == "ring" else []
    lib, err = native_lib()
    if lib is None:
        return dict(outcome="replay-build-failed", output=err)
    srcs = job.native_srcs if job.native_srcs is not None else (job.srcs if job.mode == "ring" else [])
    cmd = ["gcc"] + SAN + def_flags(defs) + incl_flags() + prelude + [harness_path(job)] + \
          [src_path(s) for s in srcs] + [lib, "-o", exe] + NATIVE_LIBS
    stampf = exe + ".cmd"
    if not (os.path.exists(exe) and os.path.exists(stampf) and open(stampf).read() == " ".join(cmd) and os.path.getmtime(exe) >= os.path.getmtime(lib)
            and os.path.getmtime(exe) >= os.path.getmtime(harness_path(job))):
        rc, out, _ = sh(cmd, cwd=wd, timeout=300, mem_gb=64)
        if rc != 0:
            return dict(outcome="replay-build-failed", output=out.decode(errors="replace")[-3000:], cmd=" ".join(cmd))
        open(stampf, "w").write(" ".join(cmd))
    inp = os.path.join(wd, "input_%s.txt" % tag)
    with open(inp, "w") as f:
        for k, hx, _ in inputs:
            f.write("%s %s\n" % (k, hx))
    env = dict(os.environ, VC_REPLAY_INPUT=inp, ASAN_OPTIONS="detect_leaks=0:abort_on_error=0:allocator_may_return_null=1",
               UBSAN_OPTIONS="print_stacktrace=1")
    oc = "not-reproduced"; txt = ""; rcode = None; mode = "exact"
    for mode in ("exact", "generic-values"):
        if mode == "generic-values":
            if not job.remove_bodies and not job.replace:
                break          # no callee was abstracted: the exact input is the only meaningful replay
            env = dict(env, VC_REPLAY_NICE="1")
        try:
            p = subprocess.run([exe], cwd=wd, env=env, stdout=subprocess.PIPE, stderr=subprocess.STDOUT, timeout=REPLAY_TIMEOUT)
            txt = p.stdout.decode(errors="replace"); rcode = p.returncode
        except subprocess.TimeoutExpired as e:
            txt = (e.stdout or b"").decode(errors="replace") + "\n[native run did not terminate within the replay time limit]"; rcode = "timeout"
            oc = "native-timeout"
            if job.timeout_is_nontermination:
                oc = "reproduced"
                txt += "\n[non-termination reproduced: the real function did not return within %d s on this input]" % REPLAY_TIMEOUT
                break
            continue
        if "VC_ASSUME_FALSE" in txt:
            oc = "inputs-violate-assumption"
        elif "VC_CHECK_FAILED" in txt or "AddressSanitizer" in txt or "runtime error:" in txt:
            oc = "reproduced"
        elif rcode in (-6, 134):
            oc = "clean-abort"
        elif isinstance(rcode, int) and rcode < 0:
            oc = "reproduced"   # crashed with a signal other than abort
        else:
            oc = "not-reproduced"
        if oc == "reproduced":
            break
    return dict(outcome=oc, mode=mode, exit=rcode, output=txt[-4000:], cmd=" ".join(cmd), input_file=inp)


def load_known():
    p = os.path.join(VERIF, "known_findings.json")
    if not os.path.exists(p):
        return []
    return json.load(open(p)).get("findings", [])


def match_known(known, prop, job, item):
    for k in known:
        if k.get("status", "open") != "open":
            continue
        if k["property"] != prop:
            continue
        if "job" in k and not re.fullmatch(k["job"], job.name):
            continue
        if "function" in k and k["function"] != item.get("function"):
            continue
        if "obligation_re" in k and not re.search(k["obligation_re"], item["obligation"] + " " + item["description"]):
            continue
        return k
    return None


def write_replay(prop, job, item, rep, res):
    h = hashlib.sha1((job.name + item["obligation"]).encode()).hexdigest()[:8]
    path = os.path.join(VERIF, "replay", "%s_%s_%s.json" % (prop, re.sub(r"[^A-Za-z0-9_.-]", "_", job.name), h))
    with open(path, "w") as f:
        json.dump(dict(property=prop, job=job.name, harness=job.harness, entry=job.entry, obligation=item["obligation"],
                       description=item["description"], location=item["location"], function=item["function"],
                       clause=job.clause, kind=job.kind, bound=job.bound, mode=job.mode,
                       inputs=item["inputs"], verifier_trace_tail=item["trace_tail"], native_replay=rep,
                       verifier_cmds=res["cmds"]), f, indent=1)
    return path


def check_property(prop, tier, only=None, verbose=False):
    t0 = time.time()
    mod = importlib.import_module("props." + prop)
    jobs = [j for j in mod.jobs(tier) if (tier == "thorough" or j.tier == "quick")]
    if only:
        jobs = [j for j in jobs if any(j.name == o or j.name.split("@")[0] == o for o in only)]
    ensure_cfg()
    os.makedirs(os.path.join(VERIF, "replay"), exist_ok=True)
    os.makedirs(EVIDENCE_DIR, exist_ok=True)
    known = load_known()
    results = {}
    with ThreadPoolExecutor(max_workers=NCPU) as ex:
        futs = {j.name: ex.submit(run_job, prop, j, tier, verbose) for j in jobs}
        for j in jobs:
            results[j.name] = futs[j.name].result()
            r = results[j.name]
            if verbose or r["status"] != "ok":
                log("  [%s] %-40s %-8s obl=%d ok=%d t=%.1fs %s" % (prop, j.name, r["status"], r["obligations"],
                    r["discharged"], r["wall_s"], r["detail"][:300]))
    violations = []; known_hits = []; undecided = []; attempted = []; degraded = []
    replay_budget = [MAX_REPLAYS_PER_PROPERTY]
    for j in jobs:
        r = results[j.name]
        if j.loop_contracts and j.fallback and r["infra_failed"] and r["status"] in ("infra", "failed"):
            # a loop-contract obligation failed: what the verifier assumed after the loop is then not what the code does, so
            # failures behind it prove nothing either way (a wrong invariant alone produces them on correct code).
            r["failed"] = []; r["status"] = "infra"
            # proof infrastructure failed: decide with the bounded stand-in whether the code or the proof broke
            jf = j.variant("fallback", defines=j.fallback.get("defines", {}))
            jf.name = j.name
            rf = run_job(prop, jf, tier, verbose, loopless=True)
            r["fallback"] = dict(status=rf["status"], obligations=rf["obligations"], detail=rf["detail"])
            if rf["status"] == "failed":
                r["failed"] = rf["failed"]; r["status"] = "failed"; r["cmds"] += rf["cmds"]
                r["detail"] = "loop-contract obligations failed; bounded stand-in (%s) found a concrete failure" % j.fallback.get("bound", "")
            elif rf["status"] == "ok":
                # the loop contracts no longer fit the code but the bounded stand-in holds: the property held on everything explored;
                # the job is reported and counted as bounded, never as proved
                r["status"] = "ok"; r["degraded"] = True; r["cmds"] += rf["cmds"]
                r["obligations"] = rf["obligations"]; r["discharged"] = rf["discharged"]; r["loop_obligations"] = 0
                r["detail"] = "loop-contract obligations not discharged (%s); decided by the bounded stand-in only (%s)" % (
                    ", ".join(i["obligation"] for i in r["infra_failed"][:4]), j.fallback.get("bound", ""))
                degraded.append((j, r))
            else:
                r["detail"] = "loop-contract obligations failed (%s); bounded stand-in status=%s: proof broken, property undecided" % (
                    ", ".join(i["obligation"] for i in r["infra_failed"][:4]), rf["status"])
        if r["status"] == "failed":
            reproduced_here = False
            for n, item in enumerate(r["failed"]):
                k = match_known(known, prop, j, item)
                if k:
                    known_hits.append((k, j, item)); continue
                rep = None
                if not j.static_only and not j.no_replay and not reproduced_here and replay_budget[0] > 0:
                    replay_budget[0] -= 1
                    try:
                        rep = native_replay(prop, j, item["inputs"], "f%d" % n)
                    except Exception as e:
                        rep = dict(outcome="replay-error", output=str(e))
                    reproduced_here = rep.get("outcome") == "reproduced"
                elif reproduced_here:
                    rep = dict(outcome="not-run", output="another failing obligation of the same job was already reproduced natively")
                elif not j.static_only and replay_budget[0] <= 0:
                    rep = dict(outcome="not-run", output="replay budget for this run exhausted (%d native replays)" % MAX_REPLAYS_PER_PROPERTY)
                else:
                    rep = dict(outcome="no-input", output="static obligation or no input trace")
                path = write_replay(prop, j, item, rep, r)
                violations.append((j, item, rep, path))
                if len([v for v in violations if v[0] is j]) >= 3:
                    break
        elif r["status"] != "ok":
            if j.advisory and r["status"] in ("timeout", "error"):
                attempted.append((j, r))
            else:
                undecided.append((j, r))
    # report
    seen_known = set()
    for k, j, item in known_hits:
        if k["id"] in seen_known:
            continue
        seen_known.add(k["id"])
        log("KNOWN-FINDING: property=%s %s [%s: %s]" % (prop, k["what_fails"], j.name, item["obligation"]))
    for j, item, rep, path in violations:
        tail = "" if rep and rep.get("outcome") == "reproduced" else " no-failing-input-found"
        log("  failed obligation %s (%s) at %s in job %s; native replay: %s" % (item["obligation"], item["description"][:90],
            item["location"], j.name, rep.get("outcome") if rep else "n/a"))
        log("VIOLATION property=%s replay=%s%s" % (prop, path, tail))
    for j, r in undecided:
        log("UNDECIDED property=%s job=%s status=%s %s" % (prop, j.name, r["status"], r["detail"][:400]))
    for j, r in degraded:
        log("PROOF-DEGRADED property=%s job=%s %s" % (prop, j.name, r["detail"][:300]))
    for j, r in attempted:
        log("ATTEMPTED-NOT-DECIDED property=%s job=%s status=%s (advisory obligation: listed in the evidence as not decided, does not count as discharged)" % (prop, j.name, r["status"]))
    # a run restricted with --jobs is a partial run: its evidence goes next to the work directory, not into /verif/evidence
    write_evidence(prop, tier, mod, jobs, results, violations, known_hits, undecided, time.time() - t0, attempted,
                   outdir=(os.path.join(WORK, "evidence_partial") if only else EVIDENCE_DIR))
    if violations:
        return 1
    if undecided:
        return 2
    log("OK property=%s tier=%s jobs=%d obligations=%d wall=%.0fs" % (prop, tier, len(jobs),
        sum(r["obligations"] for r in results.values()), time.time() - t0))
    return 0


def write_evidence(prop, tier, mod, jobs, results, violations, known_hits, undecided, wall, attempted=(), outdir=None):
    outdir = outdir or EVIDENCE_DIR
    os.makedirs(outdir, exist_ok=True)
    meta = getattr(mod, "META", {})
    obl = sum(r["obligations"] for r in results.values())
    dis = sum(r["discharged"] for r in results.values())
    kinds = sorted(set(j.kind for j in jobs))
    all_proof = bool(jobs) and all(j.kind in ("proof", "static") and not results[j.name].get("degraded") for j in jobs)
    # the evidence level is the level claimed in MANIFEST.json; a proof-level claim is downgraded when any job is bounded
    level = (getattr(mod, "MANIFEST", None) or {}).get("category") or meta.get("level") or ("proof" if all_proof else "other")
    if level == "proof" and not all_proof:
        level = "other"
    per_job = []
    samples = []
    functions = set()
    for j in jobs:
        r = results[j.name]
        functions.update(j.functions)
        per_job.append(dict(job=j.name, kind=("bounded (proof degraded: loop contracts did not apply)" if r.get("degraded") else j.kind),
                            bound=(j.fallback or {}).get("bound", j.bound) if r.get("degraded") else j.bound, arithmetic=j.mode, backend=j.backend, clause=j.clause,
                            functions_under_contract=j.functions, enforce=j.enforce, replaced_by_contract=j.replace,
                            bodies_removed=j.remove_bodies, stubs=j.stubs, loop_contracts=j.loop_contracts,
                            unwind=j.unwind, status=r["status"], obligations=r["obligations"], discharged=r["discharged"],
                            loop_obligations=r["loop_obligations"], solver_s=r["solver_s"], wall_s=r["wall_s"],
                            failed=[i["obligation"] for i in r["failed"]][:10],
                            infra_failed=[i["obligation"] for i in r["infra_failed"]][:10], detail=r["detail"][:300],
                            fallback=r.get("fallback")))
        for s in r.get("samples", [])[:2]:
            if len(samples) < 12:
                samples.append(dict(job=j.name, obligation=s))
        if r.get("reach_inputs") and len(samples) < 16:
            samples.append(dict(job=j.name, witness_input_vector=[(k, d) for k, _, d in r["reach_inputs"]][:12]))
    proof_jobs = [j for j in jobs if j.kind == "proof" and not results[j.name].get("degraded")]
    bounded_jobs = [j for j in jobs if j.kind == "bounded" or results[j.name].get("degraded")]
    expl = ("Contract-based deductive verification with CBMC %s (goto-instrument --dfcc). %d solver calls: %d unbounded "
            "(function contracts + loop contracts, kind=proof), %d bounded stand-ins (contracts enforced, loops closed by unwinding over "
            "an enumerated shape set; never counted as proved), %d static. Decided clauses: %s. Not decided by this family: %s") % (
        cbmc_version(), len(jobs), len(proof_jobs), len(bounded_jobs), len([j for j in jobs if j.kind == "static"]),
        meta.get("decided", "see per_job[].clause"), meta.get("not_decided", "n/a"))
    cov = dict(obligations=obl, discharged=dis, evaluations=len(jobs), distinct_nontrivial=len([j for j in jobs if results[j.name]["obligations"] > 0]),
               rule="one evaluation = one goto-cc/goto-instrument/cbmc pipeline over the real sources for one harness instance "
                    "(shape instance for bounded jobs); non-trivial = produced at least one obligation and its reachability witness was reachable",
               checker_cmd="goto-cc ... && goto-instrument --dfcc <entry> --enforce-contract <F> [--replace-call-with-contract G] "
                           "[--apply-loop-contracts] && cbmc --bounds-check --pointer-check --div-by-zero-check "
                           "[--unwind N --unwinding-assertions] (exact lines per job under .work/<prop>/<job>)",
               trusted_base=meta.get("trusted_base", []) + COMMON_TRUSTED,
               explanation=expl, exhaustive=False, samples=samples or [dict(note="no sample")],
               functions_under_contract=sorted(f for f in functions if f),
               assumed_contracts_and_stubs=sorted(set(sum([["contract replaces call: " + x for x in j.replace] + ["body removed, stub linked: " + x for x in j.remove_bodies] +
                                                            ["stub file: " + x for x in j.stubs] for j in jobs], []))),
               proof_obligation_groups=[j.name for j in proof_jobs], bounded_obligation_groups=[dict(job=j.name, bound=j.bound) for j in bounded_jobs],
               solver_seconds_total=round(sum(r["solver_s"] for r in results.values()), 1),
               per_job=per_job,
               known_findings_reported=sorted(set(k["id"] for k, _, _ in known_hits)),
               undecided=[dict(job=j.name, status=r["status"], detail=r["detail"][:300]) for j, r in undecided],
               attempted_not_decided=[dict(job=j.name, status=r["status"], clause=j.clause) for j, r in attempted])
    if getattr(mod, "extra_coverage", None):
        cov.update(mod.extra_coverage(results))
    ev = dict(property_id=prop, tier=tier, seed=int(os.environ.get("VERIF_SEED", "0") or 0), level=level, coverage=cov,
              assumptions=meta.get("assumptions", []) + COMMON_ASSUMPTIONS, wall_s=round(wall, 1), violations=len(violations))
    with open(os.path.join(outdir, prop + ".json"), "w") as f:
        json.dump(ev, f, indent=1)


_cv = None
def cbmc_version():
    global _cv
    if _cv is None:
        try:
            _cv = subprocess.run(["cbmc", "--version"], stdout=subprocess.PIPE).stdout.decode().strip().split()[0]
        except Exception:
            _cv = "?"
    return _cv


COMMON_TRUSTED = [
    "stdio output functions (printf, fprintf, fflush, puts) replaced by effect-free stubs (stubs/stdio_stub.c)",
    "CBMC 6.11 C front end, goto-instrument DFCC contract instrumentation, built-in C library models (malloc/realloc/free/memmove/printf), MiniSat/CaDiCaL SAT back end",
    "harness-built operands: each harness allocates well-formed containers with nondeterministic contents; the contract's requires clause states the same well-formedness and is assumed at entry",
    "ghost-index generalisation: an obligation proved for the nondeterministic cell vc_k is taken to hold for every cell",
]
COMMON_ASSUMPTIONS = [
    "allocation failure ends the path (xmalloc/xrealloc abort)",
    "machine integer ranges as stated in the requires clauses (vector sizes <= 2^20 in unbounded jobs; shapes as listed in bounded jobs)",
    "signed-overflow and shift checks of CBMC are switched off; bounds, pointer and division checks are on",
]


def replay_file(prop, path):
    d = json.load(open(path))
    mod = importlib.import_module("props." + prop)
    for tier in ("thorough", "quick"):
        for j in mod.jobs(tier):
            if j.name == d["job"]:
                ensure_cfg()
                rep = native_replay(prop, j, [tuple(x) for x in d["inputs"]], "manual")
                print(json.dumps(rep, indent=1))
                return 0 if rep["outcome"] == "reproduced" else 3
    print("job %s not found" % d["job"])
    return 2


def main():
    ap = argparse.ArgumentParser()
    ap.add_argument("prop")
    ap.add_argument("--tier", default=os.environ.get("VERIF_TIER", "quick"))
    ap.add_argument("--jobs", default=None)
    ap.add_argument("--replay", default=None)
    ap.add_argument("-v", action="store_true")
    a = ap.parse_args()
    sys.path.insert(0, VERIF)
    if a.prop == "list":
        for f in sorted(os.listdir(os.path.join(VERIF, "props"))):
            if re.match(r"C\d+\.py$", f):
                mod = importlib.import_module("props." + f[:-3])
                for t in ("quick", "thorough"):
                    print(f[:-3], t, len([j for j in mod.jobs(t) if t == "thorough" or j.tier == "quick"]))
        return 0
    if a.replay:
        return replay_file(a.prop, a.replay)
    return check_property(a.prop, a.tier, a.jobs.split(";") if a.jobs else None, a.v)


if __name__ == "__main__":
    sys.exit(main())
