/* c10_stubs.c - MatrixPreprocess by contract for the block-wise obligation of TensorPreprocess (same source file, so its
 * body is removed from the goto binary and this recording stand-in is linked).  Verifier build only. */
#include "matrix.h"
#include "vector.h"
#define GMAX 8
size_t vc_mp_calls;
matrix *vc_mp_orig[GMAX], *vc_mp_trans[GMAX];
int vc_mp_type[GMAX];
size_t vc_mp_avg0[GMAX], vc_mp_sc0[GMAX];
void MatrixPreprocess(matrix *orig, int type, dvector *colaverage, dvector *colscaling, matrix *trans)
{
  size_t c = vc_mp_calls++;
  if(c < GMAX) {
    vc_mp_orig[c] = orig; vc_mp_trans[c] = trans; vc_mp_type[c] = type;
    vc_mp_avg0[c] = colaverage->size; vc_mp_sc0[c] = colscaling->size;
  }
  for(size_t j = 0; j < orig->col; j++) {
    DVectorAppend(colaverage, 10.0 * (double)(c + 1) + (double)j);    /* tagged statistics of block c */
    DVectorAppend(colscaling, 100.0 * (double)(c + 1) + (double)j);
  }
}
