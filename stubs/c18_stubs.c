/* c18_stubs.c - adversarial oracles for functions that are DEFINED in the same source file as the loop under test
 * (so a macro rename would also rename their definition): their bodies are removed from the goto binary and these
 * are linked instead.  Verifier build only. */
#include "matrix.h"
#include "vector.h"
size_t vc_cent_calls;
#if defined(VC_UNIT_PCA) && !defined(VC_CONVERGED_AT_ONCE)
double calcConvergence(dvector *a, dvector *b) { (void)a; (void)b; double z = 0.0; return z / z; } /* never signals convergence */
#endif
#ifdef VC_UNIT_KMEANS
void getLabels_(matrix *m, matrix *c, uivector *l, int n) { (void)m; (void)c; (void)l; (void)n; }
/* the centroids never settle: alternate between two distant values */
void getCentroids(matrix *m, uivector *l, matrix **c)
{
  (void)m; (void)l;
  vc_cent_calls++;
  (*c)->data[0][0] = (vc_cent_calls & 1) ? 1000.0 : -1000.0;
}
#endif
#ifdef VC_CONVERGED_AT_ONCE
/* C01 bookkeeping jobs: the convergence measure signals convergence at the first test */
double calcConvergence(dvector *a, dvector *b) { (void)a; (void)b; return 0.0; }
#endif
