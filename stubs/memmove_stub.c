/* memmove_stub.c - byte-wise, overlap-safe model of memmove (assumed contract of libc memmove).
 * CBMC 6.11's built-in model is wrong for a symbolic length with overlapping ranges
 * (cbmc reports d[1] != c after memmove(&d[0], &d[1], (3-idx-1)*8) with idx == 0), which produced
 * counterexamples the real code does not reproduce; this loop model is used instead, under unwinding. */
#include <stddef.h>
void *memmove(void *dest, const void *src, size_t n)
{
  unsigned char *d = dest;
  const unsigned char *s = src;
  if(n == 0 || d == s)
    return dest;
  if(__CPROVER_POINTER_OBJECT(d) != __CPROVER_POINTER_OBJECT(s) ||
     __CPROVER_POINTER_OFFSET(d) < __CPROVER_POINTER_OFFSET(s)) {
    for(size_t i = 0; i < n; i++)
      d[i] = s[i];
  } else {
    for(size_t i = n; i > 0; i--)
      d[i - 1] = s[i - 1];
  }
  return dest;
}
