/* pls_stubs.c - contract-derived stand-ins for the numerically heavy callees of PLS() (verifier build only).
 * Each stub asserts the callee's precondition as read off its body, then produces an arbitrary result of the
 * shape its contract promises, using the real container functions.  Values returned are recorded in ghost
 * arrays so the caller's data flow (which component goes to which column) can be stated. */
#include "vc.h"
#include "pls.h"
#include "pca.h"
#include "preprocessing.h"
#define GMAX 8
double nondet_vc_f64(void);
int nondet_vc_int(void);

/* ghost records */
size_t vc_lv_calls;                 /* number of LVCalc calls so far */
double vc_lv_t[GMAX][GMAX];         /* t vector returned by call k */
double vc_lv_u[GMAX][GMAX];
double vc_lv_p[GMAX][GMAX];
double vc_lv_w[GMAX][GMAX];
double vc_lv_q[GMAX][GMAX];
double vc_lv_b[GMAX];
size_t vc_pp_calls;                 /* MatrixPreprocess calls */
size_t vc_yp_calls;                 /* PLSYPredictor calls */
size_t vc_yp_nlv[GMAX];             /* nlv argument of call k */
double vc_yp_val[GMAX][GMAX][GMAX]; /* result cells of call k */

void MatrixPreprocess(matrix *orig, int type, dvector *colaverage, dvector *colscaling, matrix *trans)
{
  size_t i, j;
  __CPROVER_assert(trans->row == orig->row && trans->col == orig->col, "callee precondition MatrixPreprocess: trans has the shape of orig");
  __CPROVER_assert(colaverage->size == 0 && colscaling->size == 0, "PLS() fits the preprocessing: stored vectors empty at the call");
  vc_pp_calls++;
  for(j = 0; j < orig->col; j++)
    DVectorAppend(colaverage, nondet_vc_f64());
  if(nondet_vc_int())
    for(j = 0; j < orig->col; j++)
      DVectorAppend(colscaling, nondet_vc_f64());
  for(i = 0; i < trans->row; i++)
    for(j = 0; j < trans->col; j++)
      trans->data[i][j] = nondet_vc_f64();
  (void)type;
}

void LVCalc(matrix *X, matrix *Y, dvector *t, dvector *u, dvector *p, dvector *q, dvector *w, double *bcoef)
{
  size_t i, j, k = vc_lv_calls;
  __CPROVER_assert(t->size == X->row && u->size == Y->row && p->size == X->col && w->size == X->col && q->size == Y->col && X->row == Y->row,
                   "callee precondition LVCalc: vector sizes match the block shapes");
  __CPROVER_assert(k < GMAX, "ghost capacity");
  for(i = 0; i < t->size; i++) { t->data[i] = nondet_vc_f64(); vc_lv_t[k][i] = t->data[i]; }
  for(i = 0; i < u->size; i++) { u->data[i] = nondet_vc_f64(); vc_lv_u[k][i] = u->data[i]; }
  for(i = 0; i < p->size; i++) { p->data[i] = nondet_vc_f64(); vc_lv_p[k][i] = p->data[i]; }
  for(i = 0; i < w->size; i++) { w->data[i] = nondet_vc_f64(); vc_lv_w[k][i] = w->data[i]; }
  for(i = 0; i < q->size; i++) { q->data[i] = nondet_vc_f64(); vc_lv_q[k][i] = q->data[i]; }
  *bcoef = nondet_vc_f64();
  vc_lv_b[k] = *bcoef;
  for(i = 0; i < X->row; i++)
    for(j = 0; j < X->col; j++)
      X->data[i][j] = nondet_vc_f64(); /* deflation */
  for(i = 0; i < Y->row; i++)
    for(j = 0; j < Y->col; j++)
      Y->data[i][j] = nondet_vc_f64();
  vc_lv_calls = k + 1;
}

void calcVarExpressed(double ss, dvector *eval, dvector *varexp)
{
  for(size_t i = 0; i < eval->size; i++)
    DVectorAppend(varexp, nondet_vc_f64());
  (void)ss;
}

#ifdef VC_STUB_YPRED
void PLSYPredictor(matrix *tscore, PLSMODEL *model, size_t nlv, matrix *y)
{
  size_t i, j, k = vc_yp_calls;
  __CPROVER_assert(k < GMAX, "ghost capacity");
  ResizeMatrix(y, tscore->row, model->yloadings->row);
  vc_yp_nlv[k] = nlv;
  for(i = 0; i < y->row; i++)
    for(j = 0; j < y->col; j++) {
#ifdef VC_ZERO_PRED
      /* instance (B): all recalculated values are 0, so residual must equal minus the matching observed response */
      y->data[i][j] = 0.0;
#else
      y->data[i][j] = nondet_vc_f64();
#endif
      vc_yp_val[k][i][j] = y->data[i][j];
    }
  vc_yp_calls = k + 1;
}
#endif

#ifdef VC_STUB_SCOREPRED
/* PLSScorePredictor by contract: xscores becomes objects x nlv (values arbitrary) */
size_t vc_sp_calls, vc_sp_nlv;
void PLSScorePredictor(matrix *mx, PLSMODEL *model, size_t nlv, matrix *xscores)
{
  (void)model;
  vc_sp_calls++;
  vc_sp_nlv = nlv;
  ResizeMatrix(xscores, mx->row, nlv);
  for(size_t i = 0; i < xscores->row; i++)
    for(size_t j = 0; j < xscores->col; j++)
      xscores->data[i][j] = nondet_vc_f64();
}
#endif
