/* rng_stub.c - the generator's step function generate_seed() as an opaque function (verifier build only):
 * returns an arbitrary recorded value.  The obligations then state the DATA FLOW "state := step(old state)" without
 * the solver having to prove two 32-bit multiplier circuits equal (which no back end did within 15 minutes). */
#include <stdint.h>
uint32_t nondet_vc_u32(void);
uint32_t vc_gs_in[4], vc_gs_out[4];
unsigned vc_gs_calls;
uint32_t generate_seed(uint32_t seed)
{
  uint32_t r = nondet_vc_u32();
  if(vc_gs_calls < 4) {
    vc_gs_in[vc_gs_calls] = seed;
    vc_gs_out[vc_gs_calls] = r;
  }
  vc_gs_calls++;
  return r;
}
