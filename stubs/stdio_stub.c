/* stdio_stub.c - assumed contracts for stdio output: no effect on any library-visible state.
 * (CBMC's own models dereference the FILE pointer, which is an unconstrained extern and may alias every
 * heap block of the harness; that costs solver memory without adding an obligation.) */
#include <stdio.h>
#include <stdarg.h>
int nondet_vc_int(void);
int fprintf(FILE *f, const char *fmt, ...) { (void)f; (void)fmt; return nondet_vc_int(); }
int printf(const char *fmt, ...) { (void)fmt; return nondet_vc_int(); }
int fflush(FILE *f) { (void)f; return 0; }
int puts(const char *s) { (void)s; return 0; }
int putchar(int c) { return c; }

/* glibc's isfinite() expands to __builtin_isfinite, for which CBMC 6.11 has no body (it would return an arbitrary
 * value and mark the obligation "no-body"); exact IEEE definition */
int __builtin_isfinite(double x) { return x == x && (x - x) == (x - x); }

/* strdup by contract: a fresh copy of the text; allocation failure is outside the container property (setStr does not
 * check the result either) */
#include <stdlib.h>
#include <string.h>
char *strdup(const char *s)
{
  size_t n = strlen(s) + 1;
  char *p = malloc(n);
  __CPROVER_assume(p != NULL);
  for(size_t i = 0; i < n; i++)
    p[i] = s[i];
  return p;
}
