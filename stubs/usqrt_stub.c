/* usqrt_stub.c - sqrt by contract for the structural (ring-mode) obligations: an uninterpreted function, i.e. the
 * same result for the same argument and nothing else.  Verifier build only (linked through Job.stubs). */
#ifdef double
#undef double /* ring prelude: keep libm's own signature */
#endif
double __CPROVER_uninterpreted_vcsqrt(double);
double sqrt(double x) { return __CPROVER_uninterpreted_vcsqrt(x); }
