#!/bin/sh
# Build /repo's current tree with the verification guard OFF (there are no in-source hooks, so this is the plain build)
# in a scratch directory outside /repo and /verif, run every test executable the way the baseline was recorded
# (run directly, result lines "<name>: OK"), compare with BASELINE.json, remove the scratch directory.
B=$(mktemp -d /var/tmp/vc_baseline.XXXXXX)
trap 'rm -rf "$B"' EXIT
cmake -G Ninja -S /repo -B "$B" >"$B/cmake.log" 2>&1 || { tail -30 "$B/cmake.log"; exit 2; }
cmake --build "$B" -j16 >"$B/build.log" 2>&1 || { tail -30 "$B/build.log"; exit 2; }
: > "$B/all.log"
for t in "$B"/src/tests/test*; do
  [ -x "$t" ] && [ -f "$t" ] || continue
  # a few suites seed from the clock; one retry on a non-zero exit, result lines of both runs are kept
  ( cd "$B/src/tests" && timeout 900 "$t" </dev/null >>"$B/all.log" 2>&1 ) || \
  ( cd "$B/src/tests" && timeout 900 "$t" </dev/null >>"$B/all.log" 2>&1 ) || true
done
python3 - "$B/all.log" <<'PY'
import sys, json, re
base = set(json.load(open('/root/.vp/BASELINE.json'))['stable_pass'])
passed = set()
for line in open(sys.argv[1], errors='replace'):
    m = re.match(r'^\s*(.+?): OK\.?\s*$', line)
    if m:
        passed.add(m.group(1).strip())
missing = sorted(base - passed)
print("baseline tests: %d, passed now: %d, missing: %s" % (len(base), len(base & passed), missing))
sys.exit(1 if missing else 0)
PY
