#!/bin/bash
# usage: tools/confirm_seed.sh <seed-src-dir> <seed-id> <property>
# Confirms a seeded change independently in a scratch worktree: (1) applies and builds, (2) the pinned test suite still
# passes (same "<name>: OK" set as BASELINE.json), (3) the demonstration passes on the clean tree and fails on the changed one.
# On success archives it under /verif/seeded/<seed-id>/ with meta.json. Scratch worktree and builds are removed.
S=$1; ID=$2; PROP=$3
W=/tmp/cs_$ID; BASE=/var/tmp/vc_basebuild
set -u
log() { echo "[confirm $ID] $*"; }
cleanup() { git -C /repo worktree remove --force $W >/dev/null 2>&1; rm -rf $W; }
trap cleanup EXIT
# clean reference build of HEAD, shared between confirmations, rebuilt when HEAD moves
HEAD=$(git -C /repo rev-parse HEAD)
if [ ! -f $BASE/.head ] || [ "$(cat $BASE/.head)" != "$HEAD" ]; then
  rm -rf $BASE; mkdir -p $BASE; git -C /repo worktree remove --force $BASE/src_wt >/dev/null 2>&1
  git -C /repo worktree add --detach $BASE/src_wt HEAD >/dev/null 2>&1 || exit 2
  cmake -G Ninja -S $BASE/src_wt -B $BASE/b >/dev/null 2>&1 && cmake --build $BASE/b -j16 >/dev/null 2>&1 || { log "base build failed"; exit 2; }
  echo $HEAD > $BASE/.head
fi
git -C /repo worktree add --detach $W HEAD >/dev/null 2>&1 || { log "worktree failed"; exit 2; }
git -C $W apply $S/patch.diff || { log "patch does not apply to HEAD"; exit 3; }
cmake -G Ninja -S $W -B $W/_b >/dev/null 2>&1 && cmake --build $W/_b -j16 >$W/build.log 2>&1 || { log "patched build failed"; tail -5 $W/build.log; exit 3; }
: > $W/all.log
for t in $W/_b/src/tests/test*; do [ -x $t ] && [ -f $t ] || continue
  ( cd $W/_b/src/tests && timeout 900 $t </dev/null >>$W/all.log 2>&1 ) || ( cd $W/_b/src/tests && timeout 900 $t </dev/null >>$W/all.log 2>&1 ) || true
done
python3 - $W/all.log <<'PY' || { echo "[confirm] test suite changed"; exit 4; }
import sys, json, re
base = set(json.load(open('/root/.vp/BASELINE.json'))['stable_pass'])
passed = set(m.group(1).strip() for m in (re.match(r'^\s*(.+?): OK\.?\s*$', l) for l in open(sys.argv[1], errors='replace')) if m)
missing = sorted(base - passed)
print("tests: %d/%d baseline names pass with the change; missing=%s" % (len(base & passed), len(base), missing))
sys.exit(1 if missing else 0)
PY
DEMO=""
if [ -f $S/demo.c ]; then
  for side in clean patched; do
    if [ $side = clean ]; then L=$BASE/b; I=$BASE/src_wt/src; else L=$W/_b; I=$W/src; fi
    gcc -g -fsanitize=address -w -I$I -I$L -I$L/src $S/demo.c $L/src/libscientific.so -Wl,-rpath,$L/src -lm -lpthread -o $W/demo_$side 2>$W/demo_build.log || { log "demo build failed ($side)"; tail -5 $W/demo_build.log; exit 5; }
    ( cd $W && ASAN_OPTIONS=detect_leaks=0 timeout 600 ./demo_$side >$W/demo_$side.log 2>&1 ); eval rc_$side=$?
  done
  DEMO="demo.c: clean rc=$rc_clean patched rc=$rc_patched"
  log "$DEMO"
  [ $rc_clean -eq 0 ] && [ $rc_patched -ne 0 ] || { log "demo does not discriminate"; exit 6; }
elif [ -f $S/demo.py ]; then
  DEMO="demo.py only (python-side change); not re-run by confirm_seed.sh"
fi
D=/verif/seeded/$ID; mkdir -p $D
cp $S/patch.diff $D/; [ -f $S/demo.c ] && cp $S/demo.c $D/; [ -f $S/demo.py ] && cp $S/demo.py $D/; [ -f $S/README.md ] && cp $S/README.md $D/
python3 - "$D" "$ID" "$PROP" "$DEMO" "$HEAD" <<'PY'
import sys, json
d, i, p, demo, head = sys.argv[1:6]
json.dump(dict(id=i, property=p, base_commit=head, source="independent sub-agent given only the property text and a scratch worktree",
               confirmed=dict(applies_and_builds=True, baseline_tests_pass_with_change=True, demo=demo),
               needs_to_manifest="see README.md", ran="tools/confirm_seed.sh (scratch worktree /tmp/cs_%s, removed afterwards)" % i,
               detected_by=None), open(d + "/meta.json", "w"), indent=1)
PY
log "archived in $D"
