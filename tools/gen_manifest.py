#!/usr/bin/env python3
"""Regenerate /verif/MANIFEST.json from the props modules (single source of truth for claims)."""
import json, os, sys, importlib
V = os.path.dirname(os.path.dirname(os.path.abspath(__file__)))
sys.path.insert(0, V)
ALL = ["C%02d" % i for i in range(1, 21)]
NA = {
    "C02": "Spectral correctness and rotation/permutation equivariance are statements about the limit of an unbounded floating-point NIPALS iteration (eigenvalue accuracy up to the convergence tolerance); no function contract expressible to CBMC states or decides them (DESIGN 4, C02).",
    "C04": "OLS limit, monotone RSS, beta/score-predictor equivalence and affine equivariance are numerical identities over matrix inversion and accumulated rounding; contract-based verification with CBMC has no decision procedure for them (DESIGN 4, C04).",
    "C01": "Not claimed in this round: the clauses contract-based verification can decide for PCA() (shape/frame bookkeeping, npc clamp, start column = arg-max variance, calcVarExpressed) were planned (DESIGN 4, C01) but no check was built; orthonormality, reconstruction, variance monotonicity are numerical fixed-point statements that CBMC cannot decide. Listed here rather than claimed without a check (DESIGN 13.2).",
    "C16": "Not claimed in this round: the decidable part (serialiser round trip, field/table agreement from an empty store) was planned (DESIGN 4, C16) but no check was built; 'whatever came before' depends on what sqlite3_exec does with DropAllTables' SQL, an external component that cannot be put under a contract without assuming the answer (DESIGN 13.2).",
    "C09": "Equality (up to sign and tolerance) between the fixed points of two floating-point iterations (CPCA vs PCA on concatenated blocks) is not expressible as a per-function contract decidable by CBMC (DESIGN 4, C09).",
}
checks = []; na = []
for pid in ALL:
    try:
        mod = importlib.import_module("props." + pid)
    except ModuleNotFoundError:
        mod = None
    if mod is None or not getattr(mod, "MANIFEST", None):
        na.append(dict(property_id=pid, reason=NA.get(pid, "check not built yet in this round (planned, DESIGN section 4); not claimed until its check runs green from /verif")))
        continue
    m = mod.MANIFEST
    c = dict(property_id=pid, quick_cmd="./run.py %s --tier quick" % pid, thorough_cmd="./run.py %s --tier thorough" % pid,
             evidence_file="evidence/%s.json" % pid, replay_cmd_template="./run.py %s --replay {path}" % pid, engine="cbmc-contracts",
             level_claimed=dict(category=m["category"], text=m["text"], design_ref=m.get("design_ref", "DESIGN.md section 4, " + pid)),
             level_note=m["note"], technique=m["technique"])
    checks.append(c)
man = dict(
    version=1,
    setup_cmd="./tools/setup.sh",
    hooks=dict(guard="LIBSCIENTIFIC_VERIF", enable="none needed: function contracts are attached to re-declarations in /verif/contracts/*.h and loop contracts are passed with goto-instrument --loop-contracts-file, so /repo/src is compiled unchanged (goto-cc -DVC_CBMC only affects /verif harness files)",
               baseline_off_cmd="./tools/baseline_off.sh", source_commits=[], add_only=True),
    engines=[dict(name="cbmc-contracts", path="run.py", serves_properties=[c["property_id"] for c in checks],
                  kind_free_text="contract-based deductive verification: goto-cc on /repo/src + goto-instrument --dfcc (enforce/replace function contracts, loop contracts) + cbmc; bounded stand-ins labelled as such; native ASan/UBSan replay of counterexamples")],
    checks=checks,
    notes="Fix commits in /repo (see known_findings.json 'fixed'). Exit codes of run.py: 0 ok, 1 VIOLATION, 2 undecided (timeout/tool error/proof infrastructure broken; never a VIOLATION).",
    not_applicable=na)
json.dump(man, open(os.path.join(V, "MANIFEST.json"), "w"), indent=1)
print("checks:", [c["property_id"] for c in checks], "n/a:", [n["property_id"] for n in na])
