#!/bin/bash
# Re-runs every archived seeded change that a check is recorded to catch (meta.json: detect_with) and requires a VIOLATION
# line for that property; changes recorded as missed are run too and reported (they must not be claimed as caught).
# Usage: tools/seed_regression.sh [id ...]      (scratch worktrees only; /repo is never modified)
cd /verif
fail=0
for d in ${@:-$(ls seeded)}; do
  m=seeded/$d/meta.json
  prop=$(python3 -c "import json;print(json.load(open('$m'))['property'])")
  with=$(python3 -c "import json;print(json.load(open('$m')).get('detect_with') or '')")
  if ! git -C /repo apply --check /verif/seeded/$d/patch.diff 2>/dev/null; then echo "$d: patch no longer applies to HEAD (skipped)"; continue; fi
  target=${with:-$prop}
  out=$(tools/try_seed.sh seeded/$d/patch.diff $target 2>&1)
  if echo "$out" | grep -q "^VIOLATION property=$target"; then got=caught; else got=missed; fi
  if [ -n "$with" ] && [ $got = missed ]; then echo "$d: REGRESSION - recorded as caught by $with but no VIOLATION now"; fail=1
  elif [ -z "$with" ] && [ $got = caught ]; then echo "$d: now caught by $prop (recorded as missed: update meta.json)"
  else echo "$d: $got by $target (as recorded)"; fi
done
exit $fail
