#!/bin/sh
# Nothing to build: the framework is Python + C harnesses compiled on every run. Verify the tools exist.
for t in cbmc goto-cc goto-instrument gcc python3 cvc5; do command -v $t >/dev/null || { echo "missing tool: $t"; exit 1; }; done
mkdir -p /verif/.work /verif/replay /verif/evidence
cbmc --version
