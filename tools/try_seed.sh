#!/bin/sh
# usage: tools/try_seed.sh <patch.diff> <Cxx> [tier]   - apply a seeded change to /repo, run the check, undo it
P=$1; C=$2; T=${3:-quick}
cd /repo || exit 2
git diff --quiet || { echo "/repo has uncommitted changes"; exit 2; }
git apply "$P" || { echo "patch does not apply"; exit 2; }
cd /verif && ./run.py "$C" --tier "$T" 2>&1 | grep -E "VIOLATION|^OK|UNDECIDED|KNOWN|failed obligation" | head -12
rc=$?
cd /repo && git checkout -- . && git status --short | grep -v _build
