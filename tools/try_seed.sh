#!/bin/bash
# usage: tools/try_seed.sh <patch.diff> <Cxx> [tier] [jobs-filter]
# Applies a seeded change to a scratch worktree of /repo's HEAD (never to /repo itself) and runs the check against
# that tree (VC_REPO / VC_WORK), then removes worktree and work directory.
P=$(readlink -f "$1"); C=$2; T=${3:-quick}; J=${4:-}
W=$(mktemp -d /tmp/ts_XXXXXX)
git -C /repo worktree add --detach "$W/repo" HEAD >/dev/null 2>&1 || { echo "worktree failed"; exit 2; }
git -C "$W/repo" apply "$P" || { echo "patch does not apply"; git -C /repo worktree remove --force "$W/repo"; rm -rf "$W"; exit 2; }
cd /verif && VC_REPO="$W/repo" VC_WORK="$W/work" ./run.py "$C" --tier "$T" ${J:+--jobs "$J"} 2>&1 | grep -E "VIOLATION|^OK|UNDECIDED|KNOWN|DEGRADED|failed obligation" | head -12
git -C /repo worktree remove --force "$W/repo" >/dev/null 2>&1; rm -rf "$W"
